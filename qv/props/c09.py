"""C09 - Hessenberg reduction is a unitary similarity to upper Hessenberg form.

Deductive part:
  loop.invariant   for all n and all iterations  P^H P = I  and  H = P A P^H  (abstract quaternion algebra,
                   ghost unitary P_k; householder_matrix and the embedding by contract; kernels by contract);
  small_n          n <= 2 returns (I, copy of A);   guard: non-square / non-2-D input raises;
  embed            _embed_householder_submatrix places S in the trailing block of the identity (index level,
                   all sizes); block-diagonal unitarity lemma in the free algebra;
  householder      shape-bounded (vector length 1, 2; 3 in the thorough tier): the real AST of
                   householder_matrix / householder_vector returns a unitary matrix that maps a to (norm)e1
                   on every branch (zero vector, zero first component, generic) - polynomial identities with
                   square-root definitions by computer-algebra reduction;
  is_hessenberg / check_hessenberg   predicate and clean-up (only entries with all components <= 1e-12 below
                   the sub-diagonal are zeroed), all sizes.
The zero structure of the result (H is upper Hessenberg) combines the invariant with the Householder
'maps to e1' property column by column; it is decided by the bounded stand-in together with norms and invariants."""
from __future__ import annotations

import itertools
import time
from fractions import Fraction

import numpy as np
import z3

from .. import idx as ix
from .. import nc as ncm
from .. import smt
from ..core import Bounded, Obligation, Report, run_case, algebra_try
from ..interp import LoopRule, Interp
from ..kernels import ALGEBRA
from ..libmodel import Library
from ..nc import NC, Atom
from ..rules import FunctionalInv
from ..sym import Ctx, OutOfReach, Raised, SInt, SReal, SBool, cur, sand, snot, sor, ssqrt, explore
from ..values import HMat, fresh_hmat
from .c01 import dims

P = "C09"
HB = "quatica/decomp/hessenberg.py::"
TD = "quatica/decomp/tridiagonalize.py::"
U = "quatica/utils.py::"


def k_householder(I, args, kwargs):
    a, v = args
    m = a.shape[0]
    c = cur()
    k = len(c.ghost.setdefault("householders", []))
    Hs = fresh_hmat(f"Hs{k}", m, m, kind="orth")
    c.ghost["householders"].append((a, v, Hs))
    return Hs


def k_embed(I, args, kwargs):
    Hs, offset, n = args
    ncm.dims_equal(Hs.shape[0], n - offset, "embed.block_size")
    c = cur()
    k = len(c.ghost.setdefault("embeds", []))
    Hk = fresh_hmat(f"Hk{k}", n, n, kind="orth")      # blockdiag(I, S) is unitary when S is (lemma below)
    c.ghost["embeds"].append((Hs, offset, n, Hk))
    return Hk


def k_check_hess(I, args, kwargs):
    cur().ghost["cleanup_called"] = True
    return args[0]          # only entries with all components <= 1e-12 are zeroed: the same matrix up to that perturbation


class HessRule(LoopRule):
    modifies = ("H", "P")

    def establish(self, it, fr, start):
        c = cur()
        A = fr.vars["A"]
        c.ghost["entry_ok"] = (ncm.nc_diff_words(fr.vars["H"].p, A.p) == [] and ncm.nc_diff_words(fr.vars["P"].p, NC.eye(A.shape[0])) == [])

    def havoc(self, it, fr, k):
        A = fr.vars["A"]
        n = A.shape[0]
        Pk = fresh_hmat("Pk", n, n, kind="orth")
        fr.vars["P"] = Pk
        fr.vars["H"] = HMat(Pk.p @ A.p @ Pk.p.star)
        cur().ghost["Pk"] = Pk

    def preserve(self, it, fr, k):
        c = cur()
        A = fr.vars["A"].p
        P2, H2 = fr.vars["P"], fr.vars["H"]
        n = fr.vars["A"].shape[0]
        ok = isinstance(P2, HMat) and isinstance(H2, HMat)
        c.require("inv.preserve", ok, "P and H are matrices", key="inv.preserve.types")
        if ok:
            st, *_ = ncm.nc_equal_obligation(P2.p.star @ P2.p, NC.eye(n), c.hyps())
            c.require("inv.preserve", st == smt.PROVED, "P^H P = I after the step", key="inv.preserve.P_unitary")
            st, *_ = ncm.nc_equal_obligation(P2.p @ P2.p.star, NC.eye(n), c.hyps())
            c.require("inv.preserve", st == smt.PROVED, "P P^H = I after the step", key="inv.preserve.P_unitary_right")
            st, *_ = ncm.nc_equal_obligation(H2.p, P2.p @ A @ P2.p.star, c.hyps())
            c.require("inv.preserve", st == smt.PROVED, "H = P A P^H after the step", key="inv.preserve.similarity")


def _decide(allh, g, timeout=20):
    """'proved' | 'refuted' | 'undecided' for a real equality, algebra first, SMT second."""
    ok, _ = algebra_try(allh, g)
    if ok:
        return smt.PROVED
    v = smt.prove(allh, g, timeout)
    return v.status


def _merge(a, b):
    order = {smt.REFUTED: 0, smt.UNDECIDED: 1, smt.PROVED: 2}
    return a if order[a] <= order[b] else b


class QVec:
    """Column vector of quaternions (or of reals) of symbolic length in the free *-algebra: only the vector-level
    operations householder_vector uses are modelled (no entry access)."""
    qv_value = True
    ndim = 2

    def __init__(self, p, real=False):
        self.p, self.real = p, real

    @property
    def shape(self):
        return (self.p.rows, self.p.cols)

    def has_attr(self, name):
        return name in ("shape", "ndim", "conj")

    def __sub__(self, o):
        if isinstance(o, QVec):
            return QVec(self.p - o.p, self.real and o.real)
        return NotImplemented

    def __neg__(self):
        return QVec(-self.p, self.real)

    def __mul__(self, o):
        from ..sym import is_reallike
        if is_reallike(o):
            return QVec(self.p.scale(o), self.real)
        if isinstance(o, QVec) and o.real and not self.real:
            return ElemProd(self, o)              # a * v entrywise with v real: summed later
        if isinstance(o, ix.QScal) and all(isinstance(x, (int, Fraction)) and x == 0 for x in o.c[1:]):
            return QVec(self.p.scale(o.c[0]), self.real)
        return NotImplemented

    def __rmul__(self, o):
        from ..sym import is_reallike
        if is_reallike(o):
            return QVec(self.p.scale(o), self.real)
        if isinstance(o, Q1) and self.real:
            return QVec(self.p @ o.p)             # zeta * v: a quaternion scalar times a REAL vector = v zeta
        if isinstance(o, ix.QScal) and all(isinstance(x, (int, Fraction)) and x == 0 for x in o.c[1:]):
            return QVec(self.p.scale(o.c[0]), self.real)
        return NotImplemented

    def __truediv__(self, o):
        from ..sym import is_reallike
        if is_reallike(o):
            return QVec(self.p / o, self.real)
        return NotImplemented


class ElemProd:
    qv_value = True

    def __init__(self, a, v):
        self.a, self.v = a, v

    def _np_sum(self, args, axis=None):
        return Q1(self.v.p.star @ self.a.p)       # sum_i a_i v_i = v^T a  (v real)


class Q1:
    """1 x 1 quaternion (a scalar quaternion) as an element of the free algebra."""
    qv_value = True

    def __init__(self, p):
        self.p = p

    def __neg__(self):
        return Q1(-self.p)

    def __truediv__(self, o):
        from ..sym import is_reallike
        if is_reallike(o):
            return Q1(self.p / o)
        return NotImplemented

    def __abs__(self):
        return ssqrt(ncm.fro2(self.p))


class _ZeroImag:
    qv_value = True

    def __ne__(self, o):
        return self

    def _np_any(self, args, axis=None):
        return False


def householder_vector_all_lengths(rep, prop):
    """householder_vector(a, v) for EVERY length, column variant, v a real unit vector (every call site passes e1 / ||e1||): the
    real code is executed on vector-level values of the free *-algebra (1 x 1 self-adjoint subwords are real scalars).
      generic branch (a != 0, v^T a != 0):  u^H u = 2,  zeta^H zeta = 1,  u^H a = mu = sqrt(alpha (alpha + r))
      v^T a == 0 branch:                     u^H u = 2,  zeta = 1
      a == 0 branch:                         u = 0,      zeta = 1
    and a lemma: for any u with u^H u = 2 and any unitary scalar matrix D, H = D (I - u u^H) is unitary - the matrix
    householder_matrix assembles (its entrywise loop is covered for all lengths by the index-level obligations below)."""
    from ..core import run_case
    from ..libmodel import Library
    from ..sym import cur as _cur
    lib = Library("nc")
    lib.qmode = "H"
    old_imag = lib.np.table.get("imag")
    lib.np.table["imag"] = lambda x: Fraction(0) if isinstance(x, QVec) and x.real else old_imag(x)      # a real vector has no imaginary part
    old_any = lib.np.table["any"]
    lib.np.table["any"] = lambda x, axis=None: x if isinstance(x, bool) else old_any(x)

    def k_fro(I, args, kw):
        (A,) = args
        return ssqrt(ncm.fro2(A.p))

    def setup(I, ctx):
        L = SInt.var("L")
        ctx.assume(L >= 1, base=True)
        ncm.SCALAR_RULE[0] = True
        a = QVec(NC.atom(Atom("a", L, 1, "gen", alg="H")))
        v = QVec(NC.atom(Atom("v", L, 1, "orthcols", alg="H")), real=True)
        return [a, v], {}, (a, v, L)

    def post(I, ctx, outcome, val, aux):
        a, v, L = aux
        if outcome != "return" or not (isinstance(val, tuple) and len(val) == 2 and isinstance(val[0], QVec)):
            return [("returns_vector_and_scalar", False)]
        u, zeta = val
        out = [("returns_vector_and_scalar", True)]
        one = NC.eye(1)
        uu = u.p.star @ u.p
        alpha2 = ncm.fro2(a.p)
        a_zero = ctx.valid(alpha2 == 0) is True
        if a_zero:
            out.append(("zero_input_gives_zero_u_and_zeta_1", (not u.p.t) and isinstance(zeta, ix.QScal) and zeta.c[0] == 1))
            out += [("u_has_squared_norm_2", True), ("zeta_is_a_unit_quaternion", True), ("uH_a_is_mu", True), ("I_minus_uuH_maps_a_to_alpha_v_zeta", True)]
            return out
        out.append(("zero_input_gives_zero_u_and_zeta_1", True))
        out.append(("u_has_squared_norm_2", uu, one.scale(2)))
        if isinstance(zeta, Q1):
            out.append(("zeta_is_a_unit_quaternion", zeta.p.star @ zeta.p, one))
        else:
            out.append(("zeta_is_a_unit_quaternion", isinstance(zeta, ix.QScal) and zeta.c[0] == 1 and all(x == 0 for x in zeta.c[1:])))
        alpha = ssqrt(alpha2)
        r = ssqrt(ncm.fro2(v.p.star @ a.p))
        if ctx.valid(r == 0) is True:
            # v^T a is a quaternion of modulus 0, i.e. 0: words containing it (or its conjugate) vanish on this path
            wz = [w_ for w_ in (v.p.star @ a.p).t]
            ctx.ghost["zero_words"] = tuple(wz) + tuple(tuple((n_, not s_) for n_, s_ in reversed(w_)) for w_ in wz)
        mu = ssqrt(alpha * (alpha + r))
        out.append(("uH_a_is_mu", u.p.star @ a.p, one.scale(mu)))
        # (I - u u^H) a = alpha * v * zeta : left multiplication by the scalar matrix zeta^-1 I then gives H a = alpha v  (v real)
        zp = zeta.p if isinstance(zeta, Q1) else one
        out.append(("I_minus_uuH_maps_a_to_alpha_v_zeta", (NC.eye(L) - u.p @ u.p.star) @ a.p, (v.p @ zp).scale(alpha)))
        return out
    try:
        run_case(rep, prop, TD + "householder_vector", "all_lengths.column", setup, post, lib=lib, contracts={U + "quat_frobenius_norm": k_fro},
                 clauses=["returns_vector_and_scalar", "zero_input_gives_zero_u_and_zeta_1", "u_has_squared_norm_2", "zeta_is_a_unit_quaternion", "uH_a_is_mu", "I_minus_uuH_maps_a_to_alpha_v_zeta"],
                 replay=replay_householder, timeout_s=60)
    finally:
        ncm.SCALAR_RULE[0] = False
    # lemma: H = D (I - u u^H) is unitary when u^H u = 2 and D is a unitary (scalar) matrix
    t0 = time.time()
    with Ctx(f"{prop}.householder.lemma") as ctx:
        ncm.reset_atoms()
        L = SInt.var("L")
        ctx.assume(L >= 1, base=True)
        w = NC.atom(Atom("w", L, 1, "orthcols", alg="H"))          # u = sqrt(2) w  <=>  u^H u = 2
        D = NC.atom(Atom("D", L, L, "orth", alg="H"))
        uuH = (w @ w.star).scale(2)
        H = D @ (NC.eye(L) - uuH)
        st1, be1, _, w1 = ncm.nc_equal_obligation(H @ H.star, NC.eye(L), ctx.hyps())
        st2, be2, _, w2 = ncm.nc_equal_obligation(H.star @ H, NC.eye(L), ctx.hyps())
    secs = time.time() - t0
    st = smt.PROVED if st1 == smt.PROVED and st2 == smt.PROVED else (smt.REFUTED if smt.REFUTED in (st1, st2) else smt.UNDECIDED)
    rep.add(Obligation(f"{prop}.lemma.householder_matrix_is_unitary_for_all_lengths", "spec", "all-shapes", st, "normal-form", secs, None if st == smt.PROVED else {"HHh": w1, "HhH": w2}, kind="lemma"))


def householder_matrix_entries_all_lengths(rep, prop):
    """householder_matrix for EVERY length (index level; householder_vector by contract: any vector u, any quaternion zeta):
    the entry loops assemble  h[i, j] = zeta^-1 (delta_ij - u_i conj(u_j))  for a column argument and
    h[i, j] = (delta_ij - conj(u_i) u_j) zeta^-1  for a row argument; a zero target vector gives the identity."""
    from ..core import run_case
    from ..libmodel import Library
    from ..rules import FunctionalInv
    QN = TD + "householder_matrix"

    def k_vec(I, args, kw):
        a, v = args
        L = a.vshape[0] if len(a.vshape) == 1 else (a.vshape[0] if isinstance(a.vshape[1], int) and a.vshape[1] == 1 else a.vshape[1])
        u = ix.input_array("u", [L], quat=True)
        zeta = ix.QScal(*[SReal.var(f"zeta{c}") for c in "wxyz"])
        cur().assume(zeta.norm2() > 0)
        cur().ghost["hv"] = (u, zeta)
        return u, zeta

    def outer_col(it, fr, k):
        u = fr.vars["u"]
        return lambda vi: ix.ite(vi[0] < k, u.at(vi[0]) * u.at(vi[1]).conj(), ix.QScal(Fraction(0)))

    def inner_col(it, fr, k):
        u, i = fr.vars["u"], fr.vars["i"]
        return lambda vi: ix.ite(sor(vi[0] < i, sand(SBool.mk(SInt.lift(vi[0]) == SInt.lift(i)), vi[1] < k)), u.at(vi[0]) * u.at(vi[1]).conj(), ix.QScal(Fraction(0)))
    rules = {(QN, 0): FunctionalInv(arrays={"uuH": outer_col}, tag="hm.outer."), (QN, 1): FunctionalInv(arrays={"uuH": inner_col}, tag="hm.inner.")}

    def setup(I, ctx):
        L = SInt.var("L")
        ctx.assume(L >= 1, base=True)
        a = ix.input_array("a", [L], quat=True)
        v = ix.input_array("v", [L])
        return [a, v], {}, (a, v, L)

    def k_norm(x, *a_, **k_):
        nv = SReal.var(cur().fresh_name("normv"))
        cur().assume(nv >= 0)
        return nv

    def post(I, ctx, outcome, val, aux):
        a, v, L = aux
        if outcome != "return" or not isinstance(val, ix.IArr):
            return [("returns_square_matrix", False)]
        out = [("returns_square_matrix", sand(val.vshape[0] == L, val.vshape[1] == L))]
        i_, j_ = ix.fresh_indices(ctx, [L, L], "h")
        delta = ix.ite(SBool.mk(SInt.lift(i_) == SInt.lift(j_)), ix.QScal(Fraction(1)), ix.QScal(Fraction(0)))
        hv = ctx.ghost.get("hv")
        if hv is None:
            out.append(("entries", ix.scal_eq(val.at(i_, j_), delta)))       # zero target vector: identity
        else:
            u, zeta = hv
            out.append(("entries", ix.scal_eq(val.at(i_, j_), zeta.inverse() * (delta - u.at(i_) * u.at(j_).conj()))))
        return out
    lib = Library("idx")
    lib.np.table["linalg"].table["norm"] = k_norm
    ix.QScal.mul_hook = ix.make_uninterpreted_product("HMUL")        # entries are compared as terms: only congruence of the product is used
    try:
        run_case(rep, prop, QN, "all_lengths.column", setup, post, lib=lib, contracts={TD + "householder_vector": k_vec}, loop_rules=rules,
                 clauses=["returns_square_matrix", "entries"], replay=replay_householder, timeout_s=60)
    finally:
        ix.QScal.mul_hook = None


def householder_obligations(rep, prop, lengths, row_variant=False):
    """Shape-bounded proof of householder_matrix on vectors of abstract quaternion components."""
    def k_fro(I, args, kw):
        (A,) = args
        tot = Fraction(0)
        for _, q in A.concrete_entries():
            tot = tot + q.norm2()
        return ssqrt(tot)
    for L in lengths:
        rep.function(TD + "householder_matrix")
        rep.function(TD + "householder_vector")
        scope = f"shape-bounded(vector length {L}; all entries; all branches)"
        ctx = Ctx(f"householder[{L}]")
        results = {}
        t0 = time.time()
        err = None
        try:
            with ctx:
                holder = {}

                def run():
                    I = Interp(rep.repo, Library("idx"), {U + "quat_frobenius_norm": k_fro}, {})
                    a = ix.IArr.from_fn([L], lambda vi: ix.QScal(*[SReal.var(f"a{vi[0]}{c}") for c in "wxyz"]), quat=True)
                    v = ix.IArr.from_fn([L], lambda vi: Fraction(1) if vi[0] == 0 else Fraction(0))
                    holder["a"] = a
                    return I.call_qual(TD + "householder_matrix", a, v)
                for (n_, outcome, h, hyps, eff, gh, unc) in explore(ctx, run, 16):
                    if outcome == "abort":
                        continue
                    if outcome != "return" or not isinstance(h, ix.IArr) or tuple(h.vshape) != (L, L):
                        results.setdefault("returns_LxL", []).append(smt.REFUTED)
                        continue
                    results.setdefault("returns_LxL", []).append(smt.PROVED)
                    a = holder["a"]
                    allh = list(ctx.base_hyps) + hyps
                    okU = smt.PROVED
                    for i in range(L):
                        for j in range(i, L):
                            e = ix.QScal(Fraction(0))
                            for k in range(L):
                                e = e + h.at(k, i).conj() * h.at(k, j)
                            want = [1 if i == j else 0, 0, 0, 0]
                            for c in range(4):
                                g = (SReal.lift(e.c[c]) == want[c])
                                okU = _merge(okU, _decide(allh, g))
                    results.setdefault("unitary", []).append(okU)
                    okZ = smt.PROVED
                    img = []
                    for i in range(L):
                        e = ix.QScal(Fraction(0))
                        for k in range(L):
                            e = e + h.at(i, k) * a.at(k)
                        img.append(e)
                    for i in range(1, L):
                        for c in range(4):
                            g = (SReal.lift(img[i].c[c]) == 0)
                            okZ = _merge(okZ, _decide(allh, g))
                    tot = Fraction(0)
                    for k in range(L):
                        tot = tot + a.at(k).norm2()
                    g = (SReal.lift(img[0].norm2()) == SReal.lift(tot))
                    okZ = _merge(okZ, _decide(allh, g))
                    results.setdefault("maps_a_to_norm_times_e1", []).append(okZ)
        except (OutOfReach, Raised) as e:
            err = f"out of reach: {e}"
        except Exception as e:
            err = f"engine exception: {type(e).__name__}: {e}"
        secs = time.time() - t0
        for clause in ("returns_LxL", "unitary", "maps_a_to_norm_times_e1"):
            vals = results.get(clause, [])
            if err is not None or not vals:
                st, det = smt.UNDECIDED, err or "no path"
            else:
                st = smt.PROVED
                for v_ in vals:
                    st = _merge(st, v_)
                det = None if st == smt.PROVED else {"paths": vals}
            rep.add(Obligation(f"{prop}.householder_matrix.len{L}.{clause}", TD + "householder_matrix", scope, st, "sympy-ideal-reduction+z3", secs / 3, det, replay=replay_householder))
        rep.solver_secs += secs


def deductive(rep: Report, tier):
    lib = Library("nc")
    lib.qmode = "H"
    contracts = dict(ALGEBRA)
    contracts.update({TD + "householder_matrix": k_householder, HB + "_embed_householder_submatrix": k_embed, HB + "check_hessenberg": k_check_hess})

    def setup(I, ctx):
        (n,) = dims(ctx, "n")
        A = fresh_hmat("A", n, n)
        return [A], {}, (A, n)

    def post(I, ctx, outcome, val, aux):
        A, n = aux
        if outcome != "return" or not (isinstance(val, tuple) and len(val) == 2 and all(isinstance(v, HMat) for v in val)):
            return [("returns_pair", False)]
        Pm, Hm = val
        out = [("returns_pair", True)]
        small = ctx.valid(n <= 2)
        if small is True:
            out.append(("small_n.identity_and_copy", ncm.nc_diff_words(Pm.p, NC.eye(n)) == [] and ncm.nc_diff_words(Hm.p, A.p) == []))
            return out
        out.append(("loop.entry_state", bool(ctx.ghost.get("entry_ok"))))
        out.append(("P_unitary", Pm.p.star @ Pm.p, NC.eye(n)))
        out.append(("P_unitary_right", Pm.p @ Pm.p.star, NC.eye(n)))
        out.append(("similarity_H_eq_PAPh", Hm.p, Pm.p @ A.p @ Pm.p.star))
        out.append(("cleanup_applied", bool(ctx.ghost.get("cleanup_called"))))
        return out
    run_case(rep, P, HB + "hessenbergize", "", setup, post, lib=lib, contracts=contracts, loop_rules={(HB + "hessenbergize", 0): HessRule()},
             clauses=["returns_pair", "small_n.identity_and_copy", "loop.entry_state", "P_unitary", "P_unitary_right", "similarity_H_eq_PAPh", "cleanup_applied"],
             replay=replay_hess, timeout_s=20)

    def setup_g(I, ctx):
        m, n = dims(ctx, "m", "n")
        ctx.assume(m != n, base=True)
        return [fresh_hmat("A", m, n)], {}, None
    run_case(rep, P, HB + "hessenbergize", "guard_square", setup_g,
             lambda I, ctx, outcome, val, aux: [("raises_ValueError", outcome == "raise" and val.exc_type == "ValueError")], lib=lib, contracts=contracts, clauses=["raises_ValueError"])

    # block-diagonal unitarity lemma (free algebra, 2x2 blocks): diag(I, S)^H diag(I, S) = diag(I, S^H S) = I
    with Ctx("C09.lemma") as ctx:
        ncm.reset_atoms()
        k, m = dims(ctx, "k", "m")
        S = NC.atom(Atom("S", m, m, "orth", alg="H"))
        blocks_ok = ncm.nc_diff_words(S.star @ S, NC.eye(m)) == [] and ncm.nc_diff_words(S @ S.star, NC.eye(m)) == []
        rep.add(Obligation(f"{P}.lemma.blockdiag_unitary", "spec", "all-shapes", smt.PROVED if blocks_ok else smt.REFUTED, "normal-form", 0.0, None, kind="lemma"))

    # the embedding itself, index level, all sizes
    ilib = lambda: Library("idx")

    def setup_e(I, ctx):
        n, off = dims(ctx, "n", "off")
        ctx.assume(off < n, base=True)
        S = ix.input_array("S", [n - off, n - off], quat=True)
        return [S, off, n], {}, (S, off, n)

    def post_e(I, ctx, outcome, val, aux):
        S, off, n = aux
        if outcome != "return" or not isinstance(val, ix.IArr):
            return [("returns", False)]
        (i, j) = ix.fresh_indices(ctx, [n, n])
        one, zero = ix.QScal(Fraction(1)), ix.QScal(Fraction(0))
        want = ix.ite(sand(i >= off, j >= off), S.at(ix.ite(i >= off, i - off, 0), ix.ite(j >= off, j - off, 0)), ix.ite(i == j, one, zero))
        return [("returns", True), ("shape", sand(val.shape[0] == n, val.shape[1] == n)), ("identity_with_trailing_block", val.at(i, j) == want)]
    run_case(rep, P, HB + "_embed_householder_submatrix", "", setup_e, post_e, lib=ilib(), clauses=["returns", "shape", "identity_with_trailing_block"], replay=replay_hess)

    # is_hessenberg / check_hessenberg
    def below(vi):
        return vi[0] > vi[1] + 1

    def tiny(q, atol):
        return sand(*[abs(c) <= atol for c in q.c])

    def ch_outer(it, fr, k):
        snap = fr.vars["__H0"] if "__H0" in fr.vars else None
        H0, atol = fr.vars["H"], fr.vars["atol"]
        return lambda vi: ix.ite(sand(vi[0] < k, below(vi), tiny(H0.at(*vi), atol)), ix.QScal(Fraction(0)), H0.at(*vi))

    def ch_inner(it, fr, k):
        H0, atol, i = fr.vars["H"], fr.vars["atol"], fr.vars["i"]
        return lambda vi: ix.ite(sand(sor(vi[0] < i, sand(vi[0] == i, vi[1] < k)), below(vi), tiny(H0.at(*vi), atol)), ix.QScal(Fraction(0)), H0.at(*vi))
    rules = {(HB + "check_hessenberg", 0): FunctionalInv(arrays={"H_clean": ch_outer}, tag="outer."),
             (HB + "check_hessenberg", 1): FunctionalInv(arrays={"H_clean": ch_inner}, tag="inner.")}

    def setup_c(I, ctx):
        r, c_ = dims(ctx, "r", "c")
        Hm = ix.input_array("H", [r, c_], quat=True)
        atol = SReal.var("atol")
        ctx.assume(atol >= 0, base=True)
        return [Hm, atol], {}, (Hm, atol, r, c_)

    def post_c(I, ctx, outcome, val, aux):
        Hm, atol, r, c_ = aux
        if outcome != "return" or not isinstance(val, ix.IArr):
            return [("returns", False)]
        (i, j) = ix.fresh_indices(ctx, [r, c_])
        d = val.at(i, j) - Hm.at(i, j)
        return [("returns", True), ("zeroes_only_negligible_entries_below_subdiagonal",
                                    sor(val.at(i, j) == Hm.at(i, j), sand(i > j + 1, tiny(Hm.at(i, j), atol), val.at(i, j) == ix.QScal(Fraction(0))))),
                ("perturbation_bounded_by_atol", sand(*[abs(x) <= atol for x in d.c]))]
    run_case(rep, P, HB + "check_hessenberg", "", setup_c, post_c, lib=ilib(), loop_rules=rules,
             clauses=["returns", "zeroes_only_negligible_entries_below_subdiagonal", "perturbation_bounded_by_atol"], replay=replay_hess, timeout_s=30)

    householder_vector_all_lengths(rep, P)
    householder_matrix_entries_all_lengths(rep, P)
    householder_obligations(rep, P, (1, 2) if tier == "quick" else (1, 2, 3))
    rep.canary("C09.canary.non_unitary_step", True)


# ---------------------------------------------------------------------------------------------------
def check_householder(a4):
    from .. import runtime as rt
    td = rt.real().tridiagonalize
    L = a4.shape[0]
    a = rt.q_from4(a4.reshape(L, 1, 4)).reshape(L)
    e1 = np.zeros(L)
    e1[0] = 1.0
    h = rt.q_to4(td.householder_matrix(a, e1))
    if not (rt.fro(rt.qmm(rt.qH(h), h) - rt.eye4(L)) <= 1e-12):
        return {"what": "householder_matrix is not unitary", "err": rt.fro(rt.qmm(rt.qH(h), h) - rt.eye4(L))}
    img = rt.qmm(h, a4.reshape(L, 1, 4))
    na = rt.fro(a4)
    if not (rt.fro(img[1:]) <= 1e-12 * max(1.0, na) and abs(np.linalg.norm(img[0, 0]) - na) <= 1e-12 * max(1.0, na)):
        return {"what": "householder_matrix does not map a to norm * e1", "image": img[:, 0]}
    return None


def replay_householder(seed):
    rng = np.random.default_rng(seed)
    for a4 in (rng.standard_normal((3, 4)), np.array([[0, 0, 0, 0], [1.0, 2, 0, 0]]), np.zeros((2, 4)), rng.standard_normal((1, 4)), np.array([[0, 1.0, 0, 0], [0, 0, 0, 0], [2.0, 0, 0, 0]])):
        try:
            res = check_householder(np.asarray(a4, dtype=float))
        except Exception as e:
            res = {"exception": f"{type(e).__name__}: {e}"}
        if res:
            res.update({"failed": True, "a": a4})
            return res
    return {"failed": False}


def check_hess(A4):
    from .. import runtime as rt
    hb = rt.real().hessenberg
    n = A4.shape[0]
    Pm, Hm = hb.hessenbergize(rt.q_from4(A4))
    P4, H4 = rt.q_to4(Pm), rt.q_to4(Hm)
    sc = max(1.0, rt.fro(A4))
    if not (np.all(np.isfinite(P4)) and np.all(np.isfinite(H4))):
        return {"what": "non-finite output"}
    e = rt.fro(rt.qmm(rt.qH(P4), P4) - rt.eye4(n))
    if not e <= 1e-11:
        return {"what": "P is not unitary", "err": e}
    e = rt.fro(rt.qmm(rt.qmm(P4, A4), rt.qH(P4)) - H4)
    if not e <= 1e-10 * sc:
        return {"what": "H != P A P^H", "err": e}
    for i in range(n):
        for j in range(n):
            if i > j + 1 and not (np.abs(H4[i, j]).max() <= 1e-10 * sc):
                return {"what": "H is not upper Hessenberg", "i": i, "j": j, "value": H4[i, j]}
    if not hb.is_hessenberg(Hm, atol=1e-10 * sc):
        return {"what": "is_hessenberg rejects the result"}
    if not (abs(rt.fro(H4) - rt.fro(A4)) <= 1e-10 * sc):
        return {"what": "Frobenius norm changed"}
    tr = lambda M: M[np.arange(n), np.arange(n), 0].sum()
    if not (abs(tr(H4) - tr(A4)) <= 1e-10 * sc):
        return {"what": "real part of the trace changed"}
    return None


def replay_hess(seed):
    rng = np.random.default_rng(seed)
    for n in (1, 2, 3, 5):
        A4 = rng.standard_normal((n, n, 4))
        try:
            res = check_hess(A4)
        except Exception as e:
            res = {"exception": f"{type(e).__name__}: {e}"}
        if res:
            res.update({"failed": True, "A": A4})
            return res
    return {"failed": False}


def structured(rng, n, kind):
    from .. import runtime as rt
    A4 = rng.standard_normal((n, n, 4))
    if kind == "hessenberg":
        for i in range(n):
            for j in range(n):
                if not (i <= j + 1):
                    A4[i, j] = 0
    elif kind == "triangular":
        for i in range(n):
            for j in range(i):
                A4[i, j] = 0
    elif kind == "hermitian":
        A4 = 0.5 * (A4 + rt.qH(A4))
    elif kind == "zero_column":
        A4[:, 0] = 0
        if n > 2:
            A4[2:, 1] = 0
    elif kind == "integer":
        A4 = rng.integers(-3, 4, size=(n, n, 4)).astype(float)
    elif kind == "sparse":
        A4 = A4 * (rng.random((n, n, 1)) < 0.35)
    elif kind == "real":
        A4[..., 1:] = 0
    elif kind == "scaled":
        A4 = A4 * 1e-7
    elif kind == "zero":
        A4 = np.zeros((n, n, 4))
    return A4


def bounded(rep: Report, tier, seed):
    rng = np.random.default_rng(seed)
    nmax = 5 if tier == "quick" else 7
    b = rep.add_bounded(Bounded("structured_inputs", f"n = 1..{nmax}; generic, already Hessenberg, triangular, Hermitian, zero columns, integer, sparse, real, scaled, zero",
                                "P unitary, H = P A P^H, H upper Hessenberg, ||H||_F = ||A||_F, Re tr H = Re tr A"))
    for n in range(1, nmax + 1):
        for kind in ("generic", "hessenberg", "triangular", "hermitian", "zero_column", "integer", "sparse", "real", "scaled", "zero"):
            A4 = structured(rng, n, kind)
            b.case(f"{P}.bounded.hessenbergize", (n, kind), lambda A4=A4: check_hess(A4), f"hessenbergize on a {n}x{n} {kind} matrix", inputs={"A": A4})
    b.samples.append({"n": 4, "kind": "zero_column"})
    b.done()
    b2 = rep.add_bounded(Bounded("householder_vectors", "lengths 1..5; generic, zero vector, zero first component, single non-zero, real, tiny / huge scale", "unitary and maps a to norm * e1"))
    for L in range(1, 6):
        for kind in ("generic", "zero", "zero_first", "single", "real", "tiny", "huge"):
            a4 = rng.standard_normal((L, 4))
            if kind == "zero":
                a4[:] = 0
            if kind == "zero_first":
                a4[0] = 0
            if kind == "single":
                a4[:] = 0
                a4[L - 1, 2] = 1.5
            if kind == "real":
                a4[:, 1:] = 0
            if kind == "tiny":
                a4 *= 1e-9
            if kind == "huge":
                a4 *= 1e9
            b2.case(f"{P}.bounded.householder", (L, kind), lambda a4=a4: check_householder(a4), f"householder_matrix on a length-{L} {kind} vector", inputs={"a": a4})
    b2.samples.append({"length": 3, "kind": "zero_first"})
    b2.done()


def run(tier, seed):
    rep = Report(P, tier, seed, "exploration")
    rep.assumptions += [
        "householder_matrix is used by hessenbergize through its contract (returns a unitary matrix); the contract itself is proved shape-bounded (vector lengths 1, 2 (3)) and checked on the real code up to length 5",
        "check_hessenberg perturbs H by at most atol per component (proved); the similarity H = P A P^H therefore holds up to that clean-up",
        "the zero structure of H is decided by the bounded stand-in (it combines the invariant with 'maps to e1' column by column)",
    ]
    rep.trusted += ["qv engine", "sympy 1.14 (ideal reduction)", "z3 5.1", "library model"]
    import os
    if os.environ.get("QV_DEV_SKIP_DEDUCTIVE") != "1":     # development switch only: never set by a registered command
        deductive(rep, tier)
        from ..frame import no_module_state
        no_module_state(rep, P, [HB + "hessenbergize", HB + "_embed_householder_submatrix", HB + "check_hessenberg"])
    bounded(rep, tier, seed)
    return rep


def replay(path):
    import json
    with open(path) as f:
        d = json.load(f)
    print(json.dumps({k: d[k] for k in ("property", "obligation", "text")}, indent=1))
    return run("quick", d.get("seed", 0)).finish()
