"""C07 - LU with partial pivoting reproduces A in both output modes, loud when singular.

Deductive part, shape-bounded symbolic: for every shape (m, n) up to the bound the real AST of
quaternion_lu is executed on a matrix of *abstract quaternion atoms* (qv/skew.py): the pivot search is
a non-deterministic choice constrained by the argmax contract, so every one of the pivot sequences is a
path; divisions create quotient atoms with the rule (x / p) * p = x (numpy-quaternion's right division),
no inverse is ever expanded.  On every returning path, for all entries:
   three-output mode   P A = L U,   P a permutation matrix
   two-output mode     A = L' U
   L unit lower-triangular / trapezoidal with |multiplier| <= 1, U upper-triangular / trapezoidal
and every raising path raises ValueError from the zero-pivot guard.  Complete for each enumerated
shape and every entry, bounded in shape (reported as shape-bounded, not counted as unbounded).
Helpers quaternion_modulus / quaternion_triu / quaternion_tril are proved for all shapes.
Deductive part, ALL shapes (lu_all_shapes): loop invariants over ghost functions prove P A = L U entrywise, the structure of
L, U, P, injectivity of the permutation vector and the two-output un-permutation for every (m, n); see its docstring.
Bounded stand-in: numeric replay of every pivot sequence m <= 4 (quick) / 5 (thorough) on constructed inputs."""
from __future__ import annotations

import itertools
import time
from fractions import Fraction

import numpy as np
import z3

from .. import idx as ix
from .. import nc as ncm
from .. import smt
from ..core import Bounded, Obligation, Report, run_case
from ..libmodel import Library
from ..rules import FunctionalInv
from ..skew import HScal, hmul, modulus
from ..sym import SInt, SReal, SBool, cur, sand, snot, sor, ssqrt
from .c01 import dims

P = "C07"
LU = "quatica/decomp/LU.py::"
U = "quatica/utils.py::"


def k_modulus(I, args, kwargs):
    (A,) = args
    if isinstance(A, ix.IArr) and A.hcell:
        snap = A._snapshot()
        return ix.IArr.from_fn(A.vshape, lambda vi: modulus(snap(tuple(vi))))
    if isinstance(A, ix.IArr) and A.quat:
        return A.map(lambda q: abs(q), quat=False)
    from ..sym import Raised
    raise Raised("ValueError", "Input must be a quaternion array")


def k_matmat_small(I, args, kwargs):
    A, B = args
    if not (isinstance(A, ix.IArr) and isinstance(B, ix.IArr) and A.hcell and B.hcell):
        from ..sym import OutOfReach
        raise OutOfReach("quat_matmat contract (abstract scalars) on other values")
    k = A.vshape[1]
    sa, sb = A._snapshot(), B._snapshot()

    def fn(vi):
        tot = HScal.real(0)
        for l in range(k):
            tot = tot + hmul(sa((vi[0], l)), sb((l, vi[1])))
        return tot
    return ix.IArr.from_fn([A.vshape[0], B.vshape[1]], fn, hcell=True)


CONTRACTS = {LU + "quaternion_modulus": k_modulus, U + "quat_matmat": k_matmat_small}


def input_atoms(m, n):
    table = {(i, j): HScal.atom(f"a{i}{j}") for i in range(m) for j in range(n)}
    return ix.IArr.from_fn([m, n], lambda vi: table[tuple(vi)], hcell=True), table


def mat_prod(L, Um, m, N, n):
    out = {}
    for i in range(m):
        for j in range(n):
            tot = HScal.real(0)
            for k in range(N):
                tot = tot + hmul(L.at(i, k), Um.at(k, j))
            out[(i, j)] = tot
    return out


def deductive(rep: Report, tier):
    bound = 3 if tier == "quick" else 4
    shapes = [(m, n) for m in range(1, bound + 1) for n in range(1, bound + 1)] + ([(4, 4)] if tier == "quick" else [(5, 5)])
    for (m, n) in shapes:
        if True:
            for return_p in (True, False):
                mode = "three_output" if return_p else "two_output"
                scope = f"shape-bounded(m={m},n={n}; all pivot sequences; all entries)"

                def setup(I, ctx, m=m, n=n, return_p=return_p):
                    A, table = input_atoms(m, n)
                    return [A], {"return_p": return_p}, (A, table)

                def post(I, ctx, outcome, val, aux, m=m, n=n, return_p=return_p):
                    A, table = aux
                    N = min(m, n)
                    if outcome == "raise":
                        return [("raise_is_zero_pivot_ValueError", val.exc_type == "ValueError")]
                    if outcome != "return":
                        return []
                    out = []
                    if return_p:
                        ok = isinstance(val, tuple) and len(val) == 3
                        out.append(("returns_triple", ok))
                        if not ok:
                            return out
                        L, Um, Pm = val
                    else:
                        ok = isinstance(val, tuple) and len(val) == 2
                        out.append(("returns_pair", ok))
                        if not ok:
                            return out
                        L, Um = val
                    shp = tuple(L.shape) == (m, N) and tuple(Um.shape) == (N, n)
                    out.append(("shapes", shp))
                    if not shp:
                        return out
                    out.append(("U_upper", all(Um.at(i, j).is_zero() for i in range(N) for j in range(n) if i > j)))
                    LUp = mat_prod(L, Um, m, N, n)
                    if return_p:
                        perm = []
                        isperm = tuple(Pm.shape) == (m, m)
                        if isperm:
                            for i in range(m):
                                ones = [j for j in range(m) if Pm.at(i, j) == HScal.real(1)]
                                zeros = [j for j in range(m) if Pm.at(i, j).is_zero()]
                                if len(ones) != 1 or len(zeros) != m - 1:
                                    isperm = False
                                    break
                                perm.append(ones[0])
                            isperm = isperm and sorted(perm) == list(range(m))
                        out.append(("P_is_permutation", isperm))
                        out.append(("L_unit_lower", all((L.at(i, j) == HScal.real(1)) if i == j else L.at(i, j).is_zero() for i in range(m) for j in range(N) if j >= i)))
                        if isperm:
                            out.append(("PA_eq_LU", all(LUp[(i, j)] == table[(perm[i], j)] for i in range(m) for j in range(n))))
                        mults = [modulus(L.at(i, j)) for i in range(m) for j in range(N) if i > j]
                        out.append(("multipliers_le_1", sand(*[x <= 1 for x in mults]) if mults else True))
                    else:
                        out.append(("A_eq_LU", all(LUp[(i, j)] == table[(i, j)] for i in range(m) for j in range(n))))
                    return out
                clauses = ["shapes", "U_upper"] + (["returns_triple", "P_is_permutation", "L_unit_lower", "PA_eq_LU", "multipliers_le_1"] if return_p else ["returns_pair", "A_eq_LU"])
                run_case(rep, P, LU + "quaternion_lu", f"{mode}.{m}x{n}", setup, post, lib=Library("idxh"), contracts=CONTRACTS, clauses=clauses,
                         scope=scope, replay=replay_lu(m, n, return_p), timeout_s=10, site_obligations=False, max_paths=3000)

    # helpers, all shapes (index-level, component arrays)
    lib = lambda: Library("idx")

    def setup_mod(I, ctx):
        m, n = dims(ctx, "m", "n")
        A = ix.input_array("A", [m, n], quat=True)
        return [A], {}, (A, m, n)

    def post_mod(I, ctx, outcome, val, aux):
        A, m, n = aux
        if outcome != "return" or not isinstance(val, ix.IArr):
            return [("returns", False)]
        (i, j) = ix.fresh_indices(ctx, [m, n])
        return [("returns", True), ("modulus_spec", val.at(i, j) == ssqrt(A.at(i, j).norm2()))]
    run_case(rep, P, LU + "quaternion_modulus", "", setup_mod, post_mod, lib=lib(), clauses=["returns", "modulus_spec"], replay=replay_helpers)

    for fn, keep in (("quaternion_triu", lambda i, j, k: j >= i + k), ("quaternion_tril", lambda i, j, k: j <= i + k)):
        def outer(it, fr, kk, keep=keep):
            A, k = fr.vars["A"], fr.vars["k"]
            return lambda vi: ix.ite(sand(vi[0] < kk, keep(vi[0], vi[1], k)), A.at(vi[0], vi[1]), ix.QScal(Fraction(0)))

        def inner(it, fr, kk, keep=keep):
            A, k, i = fr.vars["A"], fr.vars["k"], fr.vars["i"]
            return lambda vi: ix.ite(sand(sor(vi[0] < i, sand(vi[0] == i, vi[1] < kk)), keep(vi[0], vi[1], k)), A.at(vi[0], vi[1]), ix.QScal(Fraction(0)))
        rules = {(LU + fn, 0): FunctionalInv(arrays={"result": outer}, tag="outer."), (LU + fn, 1): FunctionalInv(arrays={"result": inner}, tag="inner.")}

        def setup_t(I, ctx):
            m, n = dims(ctx, "m", "n")
            A = ix.input_array("A", [m, n], quat=True)
            k = SInt.var("koff")
            return [A, k], {}, (A, m, n, k)

        def post_t(I, ctx, outcome, val, aux, keep=keep):
            A, m, n, k = aux
            if outcome != "return" or not isinstance(val, ix.IArr):
                return [("returns", False)]
            (i, j) = ix.fresh_indices(ctx, [m, n])
            return [("returns", True), ("triangle_spec", val.at(i, j) == ix.ite(keep(i, j, k), A.at(i, j), ix.QScal(Fraction(0))))]
        run_case(rep, P, LU + fn, "", setup_t, post_t, lib=lib(), loop_rules=rules, clauses=["returns", "triangle_spec"], replay=replay_helpers)

    lu_all_shapes(rep)
    # the un-permutation step for ALL m: with IP a bijection, L'[IP[i]] = L[i] gives (L'U)[r] = (LU)[IP^-1[r]] = A[r]
    ipf = z3.Function("IP", z3.IntSort(), z3.IntSort())
    ixf = z3.Function("IX", z3.IntSort(), z3.IntSort())
    i, r, mm = z3.Ints("i r m")
    inv = z3.ForAll([i], z3.Implies(z3.And(i >= 0, i < mm), z3.And(ipf(i) >= 0, ipf(i) < mm, ixf(ipf(i)) == i)))
    v = smt.prove([inv, r >= 0, r < mm], z3.Implies(z3.And(i >= 0, i < mm, ipf(i) == r), ixf(r) == i), 10)
    rep.add(Obligation(f"{P}.lemma.inverse_permutation_is_left_inverse", "spec", "all-shapes", v.status, v.backend, v.secs, v.model, kind="lemma"))
    rep.canary("C07.canary.permutation_is_involution", smt.prove([inv, i >= 0, i < mm], ipf(ipf(i)) == i, 5).status != smt.PROVED)


# ---------------------------------------------------------------------------------------------------
def lu_all_shapes(rep: Report):
    """quaternion_lu(A, return_p=True) for ALL shapes (m, n) by loop invariants over ghost functions (a definitional
    extension; rho = IP[i] is the ORIGINAL row that currently sits in row i, so names attached to rho survive later swaps):
        UF(t, c)       row t of U (frozen once column t has been eliminated)
        MF(rho, t)     multiplier of original row rho in column t, defined by  MF(rho, t) * UF(t, t) == A[rho, t] - SM(rho, t, t)
        SM(rho, j, c)  = sum_{t < j} MF(rho, t) * UF(t, c)                        (unfolding axiom per eliminated column)
      outer loop (column j):  rows < j are final (multipliers left of the diagonal, U right of it); rows >= j hold their
                              multipliers in columns < j and the Schur complement  A[rho, c] - SM(rho, j, c)  in columns >= j;
                              IP stays injective with values in [0, m)  (witness pair)
      multiplier loop:        rows j < i' < i of column j have been divided by the pivot, nothing else changed
    Conclusions (three-output mode):  P[i, c] = [c == IP[i]],  U[t, c] = UF(t, c) on and above the diagonal and 0 below,
    L unit lower trapezoidal with L[i, t] = MF(IP[i], t), and for every (i, c)
        A[IP[i], c] == SM(IP[i], min(i, c + 1, N), c) + [i <= c and i < N] UF(i, c)
    which is (P A)[i, c] = sum_t L[i, t] U[t, c] with the zero terms of the triangular factors dropped.
    numpy-quaternion's right division enters through its defining property (a / b) * b = a for b != 0 (library axiom)."""
    from ..interp import LoopRule
    from ..rules import _set_whole
    QN = LU + "quaternion_lu"
    I_ = z3.IntSort()
    zi = SInt.lift

    def F(name, *sorts):
        return [z3.Function(f"{name}{c}", *sorts, z3.RealSort()) for c in range(4)]
    UF, MF, SM = F("UFl", I_, I_), F("MFl", I_, I_), F("SMl", I_, I_, I_)

    def q(fs, *a):
        return ix.QScal(*[SReal.mk(f(*[zi(x) for x in a])) for f in fs])

    def sm(rho, j, c):
        return ix.ite(SBool.mk(zi(j) == zi(0)), ix.QScal(Fraction(0)), q(SM, rho, j, c))

    QMf = [z3.Function(f"QMUL{c}", *([z3.RealSort()] * 8), z3.RealSort()) for c in range(4)]
    MODf = z3.Function("QMOD", *([z3.RealSort()] * 4), z3.RealSort())

    def is_zero(x):
        return all(isinstance(v, (int, Fraction)) and v == 0 for v in x.c)

    def qmul(a, b):
        """Hamilton product as an uninterpreted function of the eight components: the invariants only use congruence
        (equal factors give equal products) and the absorbing / neutral constants 0 and 1."""
        if is_zero(a) or is_zero(b):
            return ix.QScal(Fraction(0))
        for x, y in ((a, b), (b, a)):
            if all(isinstance(v, (int, Fraction)) for v in x.c) and x.c[1] == 0 and x.c[2] == 0 and x.c[3] == 0:
                return ix.QScal(*[x.c[0] * v for v in y.c])
        args = [SReal.lift(v) for v in a.c] + [SReal.lift(v) for v in b.c]
        return ix.QScal(*[SReal.mk(f(*args)) for f in QMf])

    def qmod(x):
        """quaternion_modulus entry (proved = sqrt of the sum of squares, all shapes): here only  >= 0  and  > 0 => x != 0."""
        mval = SReal.mk(MODf(*[SReal.lift(v) for v in x.c]))
        cur().assume(mval >= 0)
        return mval

    def quotient(a, b):
        c = cur()
        c.require("div.nonzero", qmod(b) > 0, "quaternion divisor has positive modulus", key="lu.division.nonzero")
        tag = c.fresh_name("quot")
        y = ix.QScal(*[SReal.var(f"{tag}.{k}") for k in range(4)])
        c.assume(ix.scal_eq(y * b, a))
        return y

    def closedW(g, ip_at, j):
        """cell (i, c) of A_work at the head of column j, given the current IP as a function i -> rho."""
        A = g["A"]

        def cell(vi):
            i, c = vi
            rho = ip_at(i)
            final_row = ix.ite(c < i, q(MF, rho, c), q(UF, i, c))
            open_row = ix.ite(c < j, q(MF, rho, c), A.at(rho, c) - sm(rho, j, c))
            return ix.ite(i < j, final_row, open_row)
        return cell

    def name_column(c, g, ip_at, j, i_, c_, W=None):
        """Definitions attached to column j, instantiated at row i_ (> j) and column c_ (>= j):
           UF(j, c_) is row j of the Schur complement; MF(rho, j) by its defining equation; SM unfolds at j."""
        A = g["A"]
        rj = ip_at(j)
        c.assume(ix.scal_eq(q(UF, j, c_), A.at(rj, c_) - sm(rj, j, c_)))
        c.assume(ix.scal_eq(q(UF, j, j), A.at(rj, j) - sm(rj, j, j)))
        rho = ip_at(i_)
        if W is not None:
            # MF(rho, j) names the multiplier the code stored for the original row rho; the inner loop's invariant gives its
            # defining property (stored * pivot == entry before the division) for every row below the diagonal
            c.assume(ix.scal_eq(q(MF, rho, j), W.at(i_, j)))
            c.assume(g["mult_def"](i_))
            c.assume(g["mult_le1"](i_))
            c.require("step", ix.scal_eq(q(MF, rho, j) * q(UF, j, j), A.at(rho, j) - sm(rho, j, j)),
                      "multiplier times pivot is the Schur-complement entry it eliminates", key="lu.columns.multiplier_definition")
            c.require("step", qmod(q(MF, rho, j)) <= 1, "multiplier of modulus at most 1", key="lu.columns.multiplier_modulus_le_1")
        c.assume(ix.scal_eq(q(SM, rho, j + 1, c_), sm(rho, j, c_) + q(MF, rho, j) * q(UF, j, c_)))

    class Columns(LoopRule):
        modifies = ("A_work", "IP")

        def ip_fn(self, fr):
            IP = fr.vars["IP"]
            return lambda i: IP.at(i)

        def perm_facts(self, fr):
            g = cur().ghost
            IP, m = fr.vars["IP"], g["m"]
            w1, w2 = g["wit"]
            return sand(IP.at(w1) >= 0, IP.at(w1) < m, IP.at(w2) >= 0, IP.at(w2) < m, snot(SBool.mk(SReal.lift(IP.at(w1)) == SReal.lift(IP.at(w2)))))

        def establish(self, it, fr, start):
            c = cur()
            g = c.ghost
            c.require("inv.establish", self.perm_facts(fr), "IP is injective with values in [0, m) (witness pair)", key="lu.columns.inv.establish.IP")
            cond, _ = ix.pointwise_eq(c, fr.vars["A_work"], closedW(g, self.ip_fn(fr), start))
            c.require("inv.establish", cond, "A_work is A (identity permutation, nothing eliminated)", key="lu.columns.inv.establish.A_work")

        def havoc(self, it, fr, j):
            c = cur()
            g = c.ghost
            m = g["m"]
            tag = c.fresh_name("IPh")
            f = z3.Function(tag, I_, I_)
            _set_whole(fr.vars["IP"], lambda vi: SInt.mk(f(zi(vi[0]))))
            c.assume(self.perm_facts(fr))
            s_ = z3.Int("s_")
            c.assume(SBool(z3.ForAll([s_], z3.Implies(z3.And(s_ >= 0, s_ < zi(m)), z3.And(f(s_) >= 0, f(s_) < zi(m))))))      # range invariant for every row
            ip0 = lambda i: SInt.mk(f(zi(i)))
            _set_whole(fr.vars["A_work"], closedW(g, ip0, j))
            g["col_j"] = j
            g["ip_head"] = ip0

        def preserve(self, it, fr, j):
            c = cur()
            g = c.ghost
            m, n = g["m"], g["n"]
            W = fr.vars["A_work"]
            ipn = self.ip_fn(fr)
            # injectivity of the head-state permutation, instantiated at the rows this iteration can move (instances of the invariant)
            w1, w2 = g["wit"]
            lrow = fr.vars.get("l", j)
            if not isinstance(lrow, (int, SInt)):
                lrow = j            # no swap on this path (the local was never assigned)
            rows = [w1, w2, j, lrow]
            ip0 = g["ip_head"]
            for a in range(4):
                for b in range(a + 1, 4):
                    c.assume(sor(SBool.mk(zi(rows[a]) == zi(rows[b])), snot(SBool.mk(SReal.lift(ip0(rows[a])) == SReal.lift(ip0(rows[b]))))))
            c.require("inv.preserve", self.perm_facts(fr), "IP stays injective with values in [0, m)", key="lu.columns.inv.preserve.IP")
            s1 = ix.fresh_indices(c, [m], "s")[0]
            c.require("inv.preserve", sand(fr.vars["IP"].at(s1) >= 0, fr.vars["IP"].at(s1) < m), "every entry of IP stays in [0, m)", key="lu.columns.inv.preserve.IP_range")
            i_, c_ = ix.fresh_indices(c, [m, n], "p")
            # range facts of IP at the generic row (instance of the range invariant for an arbitrary row)
            irow = ix.ite(i_ > j, i_, j + 1)
            ccol = ix.ite(c_ >= j, c_, j)
            name_column(c, g, ipn, j, irow, ccol, W)
            cond = ix.scal_eq(W.at(i_, c_), closedW(g, ipn, j + 1)((i_, c_)))
            c.require("inv.preserve", cond, "after column j: row j is final, multipliers stored, Schur complement updated", key="lu.columns.inv.preserve.A_work")

    class Mult(LoopRule):
        modifies = ("A_work",)

        def closed(self, fr, i):
            g = cur().ghost
            snap, j, piv = g["mult_snap"], fr.vars["j"], fr.vars["pivot"]

            def cell(vi):
                r, c = vi
                old = snap((r, c))
                return ix.ite(sand(SBool.mk(zi(c) == zi(j)), r > j, r < i), g["mult_q"](r), old)
            return cell

        def establish(self, it, fr, start):
            c = cur()
            g = c.ghost
            W = fr.vars["A_work"]
            g["mult_snap"] = W._snapshot()
            j, piv = fr.vars["j"], fr.vars["pivot"]
            snap = g["mult_snap"]
            QF = F(c.fresh_name("QT"), I_)
            g["mult_q"] = lambda r: ix.QScal(*[SReal.mk(f(zi(r))) for f in QF])          # named quotient of row r
            g["mult_def"] = lambda r: ix.scal_eq(g["mult_q"](r) * piv, snap((r, j)))      # its defining equation
            g["mult_le1"] = lambda r: qmod(g["mult_q"](r)) <= 1                            # partial pivoting: modulus at most 1
            cond, _ = ix.pointwise_eq(c, W, self.closed(fr, start))
            c.require("inv.establish", cond, "no row has been divided before the first row of the loop (which must be j+1)", key="lu.mult.inv.establish")

        def havoc(self, it, fr, i):
            _set_whole(fr.vars["A_work"], self.closed(fr, i))

        def preserve(self, it, fr, i):
            c = cur()
            g = c.ghost
            W = fr.vars["A_work"]
            m, n = g["m"], g["n"]
            r_, c_ = ix.fresh_indices(c, [m, n], "d")
            # the quotient the code just stored in row i defines QT(i); QT(r_) for the generic row by its defining equation
            c.assume(ix.scal_eq(g["mult_q"](i), W.at(i, fr.vars["j"])))
            cond = ix.scal_eq(W.at(r_, c_), self.closed(fr, i + 1)((r_, c_)))
            c.require("inv.preserve", cond, "only A_work[i, j] changes, to the quotient by the pivot", key="lu.mult.inv.preserve")
            c.require("inv.preserve", g["mult_def"](i), "the stored multiplier times the pivot is the old entry", key="lu.mult.inv.preserve.quotient")
            # |multiplier| <= 1: the modulus is multiplicative (library fact about quaternion_modulus and the Hamilton product), the
            # pivot has the largest modulus of its column from row j down (argmax contract, instantiated at the row that now sits in row i)
            j, piv = fr.vars["j"], fr.vars["pivot"]
            y = g["mult_q"](i)
            old_entry = g["mult_snap"]((i, j))
            c.assume(SBool.mk(SReal.lift(qmod(old_entry)) == SReal.lift(qmod(y)) * SReal.lift(qmod(piv))))
            am = g.get("argmax")
            if am is not None:
                arr, r, kind = am
                for t in (i - j, 0, r):
                    rel = (arr((t,)) <= arr((r,))) if kind == "max" else (arr((t,)) >= arr((r,)))
                    c.assume(sor(snot(sand(t >= 0, t < fr.vars["m"] - j)), rel))
            c.require("inv.preserve", g["mult_le1"](i), "partial pivoting keeps the multiplier's modulus at most 1", key="lu.mult.inv.preserve.modulus_le_1")

    # ---- library pieces for this run
    def k_modulus_idx(I, args, kwargs):
        (Aq,) = args
        snap = Aq._snapshot()
        return ix.IArr.from_fn(list(Aq.vshape), lambda vi: qmod(snap(tuple(vi))))

    def k_triu(I, args, kwargs):
        """quaternion_triu(A, k=0) by its contract (triangle_spec, proved for all shapes above): keeps entries with c >= r + k."""
        Aq = args[0]
        k = args[1] if len(args) > 1 else kwargs.get("k", 0)
        snap = Aq._snapshot()
        return ix.IArr.from_fn(list(Aq.vshape), lambda vi: ix.ite(vi[1] >= vi[0] + k, snap(tuple(vi)), ix.QScal(Fraction(0))), quat=True)

    def np_arg(kind):
        def f(a):
            """np.argmax / np.argmin by contract: some index r of the array with a[r] >= a[t] (resp. <=) for every t; the
            universally quantified part is instantiated where it is used"""
            c = cur()
            L = a.vshape[0]
            r = SInt.var(c.fresh_name("arg" + kind))
            c.assume(sand(r >= 0, r < L))
            c.ghost["argmax"] = (a._snapshot(), r, kind)
            return r
        return f

    lib = Library("idx")
    lib.np.table["argmax"] = np_arg("max")
    lib.np.table["argmin"] = np_arg("min")
    orig_builtins = lib._builtins

    def patched(interp):
        t = dict(orig_builtins(interp))
        old_list = t["list"]

        def b_list(x=()):
            from ..interp import SymRange
            if isinstance(x, SymRange):
                if not (isinstance(x.start, int) and x.start == 0 and x.step == 1):
                    raise ix.OutOfReach("list(range(a, b, c))")
                return ix.IArr.from_fn([x.stop], lambda vi: vi[0])
            return old_list(x)
        t["list"] = b_list
        return t
    lib._builtins = patched
    def k_outer_product(I, args, kwargs):
        """quat_matmat of an (r x 1) column with a (1 x c) row: entrywise Hamilton products (inner dimension 1; kernel = C01)."""
        a, b = args
        ok = isinstance(a, ix.IArr) and isinstance(b, ix.IArr) and isinstance(a.vshape[1], int) and a.vshape[1] == 1 and isinstance(b.vshape[0], int) and b.vshape[0] == 1
        if not ok:
            raise ix.OutOfReach("quat_matmat call pattern other than column times row")
        sa, sb = a._snapshot(), b._snapshot()
        return ix.IArr.from_fn([a.vshape[0], b.vshape[1]], lambda vi: sa((vi[0], 0)) * sb((0, vi[1])), quat=True)
    contracts = {LU + "quaternion_modulus": k_modulus_idx, LU + "quaternion_triu": k_triu, U + "quat_matmat": k_outer_product}

    def Lclosed_outer(it, fr, k):
        cur().ghost["final_frame"] = fr
        W, N = fr.vars["A_work"], fr.vars["N"]
        snap = W._snapshot()
        return lambda vi: ix.ite(vi[0] < k, ix.ite(vi[0] > vi[1], snap((vi[0], vi[1])), ix.ite(SBool.mk(zi(vi[0]) == zi(vi[1])), ix.QScal(Fraction(1)), ix.QScal(Fraction(0)))), ix.QScal(Fraction(0)))

    def Lclosed_inner(it, fr, k):
        W, i = fr.vars["A_work"], fr.vars["i"]
        snap = W._snapshot()
        done = lambda vi: sor(vi[0] < i, sand(SBool.mk(zi(vi[0]) == zi(i)), vi[1] < k))
        return lambda vi: ix.ite(done(vi), ix.ite(vi[0] > vi[1], snap((vi[0], vi[1])), ix.ite(SBool.mk(zi(vi[0]) == zi(vi[1])), ix.QScal(Fraction(1)), ix.QScal(Fraction(0)))), ix.QScal(Fraction(0)))

    def Pclosed(it, fr, k):
        IP = fr.vars["IP"]
        return lambda vi: ix.ite(sand(vi[0] < k, SBool.mk(SReal.lift(IP.at(vi[0])) == SReal.lift(vi[1]))), ix.QScal(Fraction(1)), ix.QScal(Fraction(0)))

    class Unperm(LoopRule):
        """for i in range(m): L_permuted[IP[i], :] = L[i, :]   - witness invariant: once row i1 has been copied, L_permuted[IP[i1], t1]
        holds L[i1, t1] and later iterations write other rows (IP injective)."""
        modifies = ("L_permuted",)

        def fact(self, fr, k):
            g = cur().ghost
            i1, t1 = g["unperm_wit"]
            Lp, Lf, IP = fr.vars["L_permuted"], fr.vars["L"], fr.vars["IP"]
            return sor(snot(i1 < k), ix.scal_eq(Lp.at(IP.at(i1), t1), Lf.at(i1, t1)))

        def establish(self, it, fr, start):
            cur().require("inv.establish", self.fact(fr, start), "nothing copied yet", key="lu.unperm.inv.establish")

        def havoc(self, it, fr, k):
            c = cur()
            g = c.ghost
            Lp = fr.vars["L_permuted"]
            tag = c.fresh_name("LPh")
            fs = [z3.Function(f"{tag}.{cc}", I_, I_, z3.RealSort()) for cc in range(4)]
            _set_whole(Lp, lambda vi: ix.QScal(*[SReal.mk(f(zi(vi[0]), zi(vi[1]))) for f in fs]))
            c.assume(self.fact(fr, k))

        def preserve(self, it, fr, k):
            c = cur()
            g = c.ghost
            i1, t1 = g["unperm_wit"]
            IP = fr.vars["IP"]
            # instance of the injectivity of IP (proved by the elimination loop) at the pair (i1, k)
            c.assume(sor(SBool.mk(zi(i1) == zi(k)), snot(SBool.mk(SReal.lift(IP.at(i1)) == SReal.lift(IP.at(k))))))
            c.require("inv.preserve", self.fact(fr, k + 1), "the copied row stays in place", key="lu.unperm.inv.preserve")

    rules = {(QN, 0): Columns(), (QN, 1): Mult(), (QN, 2): FunctionalInv(arrays={"L": Lclosed_outer}, tag="lu.L.outer."),
             (QN, 3): FunctionalInv(arrays={"L": Lclosed_inner}, tag="lu.L.inner."), (QN, 4): FunctionalInv(arrays={"P": Pclosed}, tag="lu.P."),
             (QN, 5): Unperm()}

    def setup(I, ctx):
        m, n = dims(ctx, "m", "n")
        A = ix.input_array("A", [m, n], quat=True)
        w1, w2 = SInt.var("w1"), SInt.var("w2")
        ctx.assume(sand(w1 >= 0, w1 < m, w2 >= 0, w2 < m, snot(SBool.mk(zi(w1) == zi(w2)))), base=True)
        ctx.ghost.update({"A": A, "m": m, "n": n, "wit": (w1, w2)})
        ix.QScal.quotient_hook = quotient
        ix.QScal.mul_hook = qmul
        i1 = SInt.var("urow")
        t1 = SInt.var("ucol")
        ctx.assume(sand(i1 >= 0, i1 < m, t1 >= 0, t1 < smin(m, n)), base=True)
        ctx.ghost["unperm_wit"] = (i1, t1)
        return [A], {"return_p": ctx.ghost["mode_return_p"]}, (A, m, n)

    def post(I, ctx, outcome, val, aux):
        A, m, n = aux
        g = ctx.ghost
        if outcome == "raise":
            return [("raise_is_zero_pivot_ValueError", val.exc_type == "ValueError")]
        if outcome != "return":
            return []
        three = g["mode_return_p"]
        ok = isinstance(val, tuple) and len(val) == (3 if three else 2) and all(isinstance(v, ix.IArr) for v in val)
        out = [("returns_triple" if three else "returns_pair", ok)]
        if not ok:
            return out
        N = smin(m, n)
        if three:
            Lm, Um, Pm = val
            out.append(("shapes", sand(Lm.vshape[0] == m, Lm.vshape[1] == N, Um.vshape[0] == N, Um.vshape[1] == n, Pm.vshape[0] == m, Pm.vshape[1] == m)))
        else:
            Lp, Um = val
            Pm = None
            out.append(("shapes", sand(Lp.vshape[0] == m, Lp.vshape[1] == N, Um.vshape[0] == N, Um.vshape[1] == n)))
        fr = g.get("final_frame")
        if fr is None:
            return out + [("final_state_captured", False)]
        W, IP = fr.vars["A_work"], fr.vars["IP"]
        ip = lambda i: IP.at(i)
        jx = g["col_j"]                      # column at which the elimination loop was left (N when it ran to completion)
        i_, c_ = ix.fresh_indices(ctx, [m, n], "y")
        rho = ip(i_)
        Aat = A.at(rho, c_)
        broke = ctx.valid(SBool.mk(zi(jx) < zi(N))) is True
        if broke:
            # exit naming for column jx (the loop was left by one of its two breaks): row jx of U, and - if the multipliers of
            # column jx were computed (break after the division loop) - the multipliers of the rows below
            last_row = ctx.valid(SBool.mk(zi(jx) == zi(m - 1))) is True
            cc = ix.ite(c_ >= jx, c_, jx)
            ctx.assume(ix.scal_eq(q(UF, jx, cc), W.at(jx, cc)))
            ctx.assume(ix.scal_eq(q(UF, jx, jx), W.at(jx, jx)))
            if not last_row:
                ii = ix.ite(i_ > jx, i_, jx + 1)
                ctx.assume(ix.scal_eq(q(MF, ip(ii), jx), W.at(ii, jx)))
                ctx.assume(g["mult_def"](ii))
                ctx.assume(g["mult_le1"](ii))
        # instances of the invariant's definitional facts for the columns eliminated before jx
        defU = lambda t, c: ix.scal_eq(q(UF, t, c), A.at(ip(t), c) - sm(ip(t), t, c))
        defM = lambda i, t: ix.scal_eq(q(MF, ip(i), t) * q(UF, t, t), A.at(ip(i), t) - sm(ip(i), t, t))
        ctx.assume(sor(snot(sand(i_ < jx, i_ <= c_)), defU(i_, c_)))
        ctx.assume(sor(snot(sand(c_ < jx, c_ < i_)), defM(i_, c_)))
        ctx.assume(sor(snot(c_ < i_), ix.scal_eq(q(SM, rho, c_ + 1, c_), sm(rho, c_, c_) + q(MF, rho, c_) * q(UF, c_, c_))))
        on_or_above = sand(i_ <= c_, i_ < N)
        want = ix.ite(on_or_above, sm(rho, i_, c_) + q(UF, i_, c_), q(SM, rho, c_ + 1, c_))
        out.append(("PA_equals_LU_entrywise", ix.scal_eq(Aat, want)))
        # the factors really are those ghost functions
        t_ = ix.fresh_indices(ctx, [N], "t")[0]
        out.append(("U_is_upper_with_rows_UF", ix.scal_eq(Um.at(t_, c_), ix.ite(c_ >= t_, W.at(t_, c_), ix.QScal(Fraction(0))))))
        unit_lower = lambda i, t: ix.ite(i > t, W.at(i, t), ix.ite(SBool.mk(zi(i) == zi(t)), ix.QScal(Fraction(1)), ix.QScal(Fraction(0))))
        if three:
            out.append(("L_is_unit_lower_with_the_stored_multipliers", ix.scal_eq(Lm.at(i_, t_), unit_lower(i_, t_))))
            r_ = ix.fresh_indices(ctx, [m], "r")[0]
            out.append(("P_has_its_one_at_IP", ix.scal_eq(Pm.at(i_, r_), ix.ite(SBool.mk(SReal.lift(IP.at(i_)) == SReal.lift(r_)), ix.QScal(Fraction(1)), ix.QScal(Fraction(0))))))
        else:
            # two-output mode: row IP[i] of the returned L' is row i of the unit lower factor, for the arbitrary witness (i, t)
            i1, t1 = g["unperm_wit"]
            out.append(("row_IP_i_of_returned_L_is_row_i_of_L", ix.scal_eq(Lp.at(IP.at(i1), t1), unit_lower(i1, t1))))
        w1, w2 = g["wit"]
        if broke:
            # the iteration that was left may have swapped two rows: instances of the head-state injectivity at the rows involved
            lrow = fr.vars.get("l", jx)
            if not isinstance(lrow, (int, SInt)):
                lrow = jx
            rows = [w1, w2, jx, lrow]
            ip0 = g["ip_head"]
            for a in range(4):
                for b in range(a + 1, 4):
                    ctx.assume(sor(SBool.mk(zi(rows[a]) == zi(rows[b])), snot(SBool.mk(SReal.lift(ip0(rows[a])) == SReal.lift(ip0(rows[b]))))))
        out.append(("IP_is_injective_into_0_m", sand(IP.at(w1) >= 0, IP.at(w1) < m, snot(SBool.mk(SReal.lift(IP.at(w1)) == SReal.lift(IP.at(w2)))))))
        # stored entries are the ghost functions (so the three clauses above compose to P A = L U)
        out.append(("stored_upper_entries_are_UF", sor(snot(sand(i_ <= c_, i_ < N)), ix.scal_eq(W.at(i_, c_), q(UF, i_, c_)))))
        out.append(("stored_lower_entries_are_MF", sor(snot(c_ < i_), ix.scal_eq(W.at(i_, c_), q(MF, rho, c_)))))
        # instance of the invariant fact "every multiplier of an eliminated column has modulus <= 1"
        ctx.assume(sor(snot(sand(c_ < jx, c_ < i_)), qmod(q(MF, rho, c_)) <= 1))
        out.append(("multipliers_have_modulus_at_most_1", sor(snot(c_ < i_), qmod(W.at(i_, c_)) <= 1)))
        out.append(("hypotheses_consistent", ctx.valid(SBool(z3.BoolVal(False))) is not True))
        return out
    from .c01 import dims
    from ..sym import smin
    try:
        for three in (True, False):
            def setup_m(I, ctx, three=three):
                ctx.ghost["mode_return_p"] = three
                return setup(I, ctx)
            common = ["shapes", "PA_equals_LU_entrywise", "U_is_upper_with_rows_UF", "IP_is_injective_into_0_m", "stored_upper_entries_are_UF", "stored_lower_entries_are_MF",
                      "multipliers_have_modulus_at_most_1", "hypotheses_consistent"]
            cl = (["returns_triple", "L_is_unit_lower_with_the_stored_multipliers", "P_has_its_one_at_IP"] if three else ["returns_pair", "row_IP_i_of_returned_L_is_row_i_of_L"]) + common
            def model_replay(inputs):
                A4 = inputs.get("A")
                return None if A4 is None else _check_lu(A4)
            run_case(rep, P, QN, "all_shapes.three_output" if three else "all_shapes.two_output", setup_m, post, lib=lib, contracts=contracts, loop_rules=rules,
                     clauses=cl, replay=replay_lu(3, 3, three), timeout_s=60, max_paths=2000, model_replay=model_replay)
    finally:
        ix.QScal.quotient_hook = None
        ix.QScal.mul_hook = None


# ---------------------------------------------------------------------------------------------------
def _forced(rng, m, n, seq):
    """A quaternion matrix whose partial-pivoting search takes exactly the row choices `seq` (positions within
    the remaining rows): built backwards from random L (unit lower, |l| < 0.7), U (dominant diagonal) and the permutation."""
    from .. import runtime as rt
    N = min(m, n)
    L = np.zeros((m, N, 4))
    for i in range(m):
        for j in range(N):
            if i == j:
                L[i, j, 0] = 1
            elif i > j:
                v = rng.standard_normal(4)
                L[i, j] = 0.6 * rng.random() * v / np.linalg.norm(v)
    Um = np.zeros((N, n, 4))
    for i in range(N):
        for j in range(i, n):
            v = rng.standard_normal(4)
            Um[i, j] = v / np.linalg.norm(v) * ((3.0 + rng.random()) * 4.0 ** (N - i) if i == j else rng.random())
    PA = rt.qmm(L, Um)
    # permutation implied by the swap sequence
    ip = list(range(m))
    for j, k in enumerate(seq):
        ip[j], ip[j + k] = ip[j + k], ip[j]
    A = np.zeros_like(PA)
    for i in range(m):
        A[ip[i]] = PA[i]
    return A, ip


def _check_lu(A4, expect_ip=None):
    from .. import runtime as rt
    r = rt.real()
    A = rt.q_from4(A4)
    m, n = A4.shape[:2]
    N = min(m, n)
    L, Um, Pm = r.LU.quaternion_lu(A, return_p=True)
    L4, U4, P4 = rt.q_to4(L), rt.q_to4(Um), rt.q_to4(Pm)
    if not (np.all(np.isfinite(L4)) and np.all(np.isfinite(U4))):
        return {"what": "factors contain NaN / inf (a zero pivot was divided by instead of being reported)"}
    tol = 1e-11 * max(1.0, rt.fro(A4))
    if L4.shape[:2] != (m, N) or U4.shape[:2] != (N, n):
        return {"what": "shapes of L/U", "L": L4.shape, "U": U4.shape}
    if not rt.fro(rt.qmm(P4, A4) - rt.qmm(L4, U4)) <= tol:
        return {"what": "P A != L U", "err": rt.fro(rt.qmm(P4, A4) - rt.qmm(L4, U4))}
    Pr = P4[..., 0]
    if np.abs(P4[..., 1:]).max() > 0 or not (np.all(Pr.sum(0) == 1) and np.all(Pr.sum(1) == 1) and set(np.unique(Pr)) <= {0.0, 1.0}):
        return {"what": "P is not a permutation matrix"}
    if expect_ip is not None and [int(np.argmax(Pr[i])) for i in range(m)] != list(expect_ip):
        return {"what": "pivot sequence differs from the constructed one (harness)", "harness": True}
    for i in range(m):
        for j in range(N):
            mod = np.linalg.norm(L4[i, j])
            if (i == j and not np.array_equal(L4[i, j], [1, 0, 0, 0])) or (j > i and mod != 0) or (i > j and not (mod <= 1 + 1e-12)):
                return {"what": "L not unit lower-triangular with multipliers <= 1", "i": i, "j": j, "value": L4[i, j]}
    for i in range(N):
        for j in range(min(i, n)):
            if np.linalg.norm(U4[i, j]) != 0:
                return {"what": "U not upper-triangular"}
    L2, U2 = r.LU.quaternion_lu(A)
    err2 = rt.fro(A4 - rt.qmm(rt.q_to4(L2), rt.q_to4(U2)))
    if not err2 <= tol:
        return {"what": "two-output mode: A != L U", "err": err2, "permutation": [int(np.argmax(Pr[i])) for i in range(m)]}
    return None


def replay_lu(m, n, return_p):
    def rp(seed):
        rng = np.random.default_rng(seed)
        for seq in itertools.product(*[range(m - j) for j in range(min(m, n))]):
            A4, ip = _forced(rng, m, n, seq)
            try:
                res = _check_lu(A4)
            except Exception as e:
                res = {"exception": f"{type(e).__name__}: {e}"}
            if res and not res.get("harness"):
                res.update({"failed": True, "A": A4, "forced_sequence": list(seq)})
                return res
        return {"failed": False}
    return rp


def replay_helpers(seed):
    from .. import runtime as rt
    r = rt.real()
    rng = np.random.default_rng(seed)
    A4 = rng.integers(-3, 4, size=(3, 4, 4)).astype(float)
    A = rt.q_from4(A4)
    if not np.allclose(r.LU.quaternion_modulus(A), np.sqrt((A4 ** 2).sum(-1))):
        return {"failed": True, "what": "quaternion_modulus"}
    for k in (-1, 0, 1, 2):
        tu, tl = rt.q_to4(r.LU.quaternion_triu(A, k)), rt.q_to4(r.LU.quaternion_tril(A, k))
        for i in range(3):
            for j in range(4):
                if not np.array_equal(tu[i, j], A4[i, j] if j >= i + k else np.zeros(4)) or not np.array_equal(tl[i, j], A4[i, j] if j <= i + k else np.zeros(4)):
                    return {"failed": True, "what": "triu/tril", "k": k, "i": i, "j": j}
    return {"failed": False}


def bounded(rep: Report, tier, seed):
    from .. import runtime as rt
    rng = np.random.default_rng(seed)
    mmax = 4 if tier == "quick" else 5
    b = rep.add_bounded(Bounded("pivot_sequences", f"every row-interchange sequence for m <= {mmax} (m! each), shapes m x n with n in {{m-1, m, m+1}}",
                                "inputs constructed to force each sequence; P A = L U, A = L'U, structure of L, U, P; exhaustive over the sequences"))
    for m in range(1, mmax + 1):
        for n in sorted({max(1, m - 1), m, m + 1}):
            if tier == "quick" and m == 4 and n != 4:
                continue
            for seq in itertools.product(*[range(m - j) for j in range(min(m, n))]):
                A4, ip = _forced(rng, m, n, seq)
                b.case(f"{P}.bounded.forced_sequence", (m, n, seq), lambda A4=A4, ip=ip: _check_lu(A4, ip), f"{m}x{n} forced pivot sequence {seq}",
                       inputs={"A": A4, "sequence": list(seq)})
    b.failures = [f for f in b.failures if not f.get("harness")]
    b.samples.append({"shape": [3, 3], "sequence": [2, 1], "permutation": "3-cycle (non-involutive)"})
    b.exhaustive = True
    b.done()
    b2 = rep.add_bounded(Bounded("patterns_and_guard", "random / integer / rank-deficient / zero-column inputs, shapes <= 5", "decomposition contract or ValueError, never silent wrong factors"))
    for t in range(12 if tier == "quick" else 60):
        m, n = (int(x) for x in rng.integers(1, 6, size=2))
        A4 = rng.integers(-3, 4, size=(m, n, 4)).astype(float) if t % 2 else rng.standard_normal((m, n, 4))
        if t % 3 == 0 and n > 1:
            A4[:, int(rng.integers(0, n))] = 0

        def f(A4=A4):
            try:
                return _check_lu(A4)
            except ValueError as e:
                return None if "pivot" in str(e).lower() else {"what": f"unexpected ValueError {e}"}
        b2.case(f"{P}.bounded.patterns", (m, n, t), f, f"{m}x{n} pattern {t}", inputs={"A": A4})
    # exactly dependent columns (integer data): a later column becomes exactly zero during elimination
    for t, (m, n, jdep) in enumerate(((3, 3, 1), (3, 2, 1), (3, 4, 1), (4, 4, 2), (4, 3, 2))):
        A4 = rng.integers(-3, 4, size=(m, n, 4)).astype(float)
        q = np.array([0.0, 2.0, 0.0, 0.0]) if t % 2 == 0 else np.array([1.0, 0.0, -1.0, 0.0])
        A4[:, jdep] = rt.qmm(A4[:, jdep - 1:jdep], q.reshape(1, 1, 4))[:, 0]

        def fdep(A4=A4):
            try:
                return _check_lu(A4)
            except ValueError as e:
                return None if "pivot" in str(e).lower() else {"what": f"unexpected ValueError {e}"}
        b2.case(f"{P}.bounded.dependent_columns", (m, n, jdep, t), fdep, f"{m}x{n} with column {jdep} = column {jdep-1} * q (exactly singular)", inputs={"A": A4})
    # exact breakdown in a later column: pivots are powers of two so that every multiplier is exact
    def exact_singular(m, n, jdep):
        A4 = np.zeros((m, n, 4))
        col = [[2.0, 0, 0, 0], [1.0, 1.0, 0, 0], [1.0, 0, -1.0, 0], [0, 1.0, 0, 1.0]]
        for i in range(m):
            A4[i, 0] = col[i]
        for j in range(1, n):
            A4[:, j] = rng.integers(-2, 3, size=(m, 4))
        if jdep == 1:
            A4[:, 1] = rt.qmm(A4[:, 0:1], np.array([0.0, 2.0, 0.0, 0.0]).reshape(1, 1, 4))[:, 0]
        else:
            # column 1 independent with an exact second pivot, column 2 = combination of columns 0 and 1
            A4[:, 1] = rt.qmm(A4[:, 0:1], np.array([0.0, 0.0, 1.0, 0.0]).reshape(1, 1, 4))[:, 0]
            A4[1, 1] += [4.0, 0, 0, 0]
            A4[:, 2] = rt.qmm(A4[:, 0:1], np.array([1.0, 0.0, 0.0, 1.0]).reshape(1, 1, 4))[:, 0] + rt.qmm(A4[:, 1:2], np.array([0.0, 1.0, 0.0, 0.0]).reshape(1, 1, 4))[:, 0]
        return A4
    for (m, n, jdep) in ((3, 3, 1), (3, 2, 1), (3, 4, 1), (4, 4, 2), (4, 4, 1)):
        A4 = exact_singular(m, n, jdep)

        def fex(A4=A4):
            import warnings
            with warnings.catch_warnings():
                warnings.simplefilter("ignore")
                try:
                    return _check_lu(A4)
                except ValueError as e:
                    return None if "pivot" in str(e).lower() else {"what": f"unexpected ValueError {e}"}
        b2.case(f"{P}.bounded.exact_breakdown", (m, n, jdep), fex, f"{m}x{n} integer matrix whose column {jdep} becomes exactly zero below the diagonal", inputs={"A": A4})
    z = np.zeros((3, 3, 4))

    def zero():
        try:
            rt.real().LU.quaternion_lu(rt.q_from4(z))
        except ValueError:
            return None
        return {"what": "zero matrix was factorised silently"}
    b2.case(f"{P}.bounded.zero_pivot", ("zero",), zero, "zero 3x3 matrix")
    b2.samples.append({"shape": [3, 4], "pattern": "integer with a zero column"})
    b2.done()


def run(tier, seed):
    rep = Report(P, tier, seed, "proof")
    rep.assumptions += [
        "numpy-quaternion division a / b is right division a b^-1 (checked against the installed library); the abstract-scalar algebra uses only associativity, distributivity, central reals and (x p^-1) p = x",
        "np.argmax returns an index of a maximal element (contract); moduli are multiplicative (|x p^-1| |p| = |x|)",
        "the elimination proof is complete per enumerated shape (all pivot sequences, all entries) but bounded in shape: m, n <= 3 (quick) / 4 (thorough); larger shapes are covered only by the numeric replay of forced sequences",
    ]
    rep.trusted += ["qv engine (skew.py abstract scalars)", "z3 5.1", "library model"]
    deductive(rep, tier)
    bounded(rep, tier, seed)
    return rep


def replay(path):
    import json
    with open(path) as f:
        d = json.load(f)
    print(json.dumps({k: d[k] for k in ("property", "obligation", "text")}, indent=1))
    return run("quick", d.get("seed", 0)).finish()
