"""C08 - Hermitian eigendecomposition and tridiagonalisation are exact unitary reductions.

Deductive part:
  householder        (shape-bounded, vector lengths 1, 2 (3)) householder_matrix is unitary and maps a to norm*e1
                     on every branch (shared machinery with C09);
  check_tridiagonal  for all sizes the clean-up returns a matrix that is exactly real and exactly tridiagonal:
                     B_clean[i,j] = Re B[i,j] on the band, 0 off the band (closed-form loop invariants);
  tridiagonalize     guards (non-square, size < 2, non-Hermitian) and glue: returns (P, check_tridiagonal(B)) of
                     the internal reduction;
  eig.glue           quaternion_eigendecomposition: non-square / non-Hermitian rejected; 1x1 case returns (Re a, [1]);
                     the real tridiagonal matrix is converted entry by entry, the symmetric eigen-solver is called
                     once on it, its vectors are converted back entry by entry and multiplied by P^H (index level);
  eig.backtransform  lemma in the free algebra: B = P A P^H, P unitary, B V = V L  =>  A (P^H V) = (P^H V) L and
                     (P^H V)^H (P^H V) = V^H V, so V unitary needs an orthonormal V_B: the eigen-solver's contract
                     must be eigh's (checked: the solver called is np.linalg.eigh).
  recursion          internal_tridiagonalizer for every r >= 2, modularly (the recursive call by its own contract C(r-1)), in
                     1 + (r-1) block form over the free *-algebra: P is unitary and of the form diag(1, P'), B = P A P^H,
                     column 0 of B has nothing below the sub-diagonal (H x = nu e1 from the Householder contract), the corner
                     is untouched, the recursive call receives H A22 H^H and its result becomes the trailing block.
Everything about rounding, and the eigen-solver's numerics, are decided by the bounded stand-in on Hermitian classes
n <= 6 incl. repeated / zero spectra, block-diagonal and zero-pivot patterns."""
from __future__ import annotations

import itertools
from fractions import Fraction

import numpy as np
import z3

from .. import idx as ix
from .. import nc as ncm
from .. import smt
from ..core import Bounded, Obligation, Report, run_case
from ..libmodel import Library
from ..nc import NC, Atom
from ..rules import FunctionalInv
from ..sym import Ctx, SInt, SReal, SBool, cur, sand, snot, sor, ssqrt
from .c01 import dims
from .c09 import householder_obligations, replay_householder

P = "C08"
TD = "quatica/decomp/tridiagonalize.py::"
EG = "quatica/decomp/eigen.py::"
U = "quatica/utils.py::"


def real_q(x):
    return ix.QScal(x, Fraction(0), Fraction(0), Fraction(0))


def deductive(rep: Report, tier):
    lib = lambda: Library("idx")

    # ------------------------------------------------------------------ check_tridiagonal, all sizes
    def band(vi):
        d = vi[0] - vi[1]
        return sand(d <= 1, d >= -1)

    def off_outer(it, fr, k):
        B = fr.vars["B"]
        return lambda vi: ix.ite(sand(vi[0] < k, snot(band(vi))), B.at(*vi), ix.QScal(Fraction(0)))

    def off_inner(it, fr, k):
        B, i = fr.vars["B"], fr.vars["i"]
        return lambda vi: ix.ite(sand(sor(vi[0] < i, sand(vi[0] == i, vi[1] < k)), snot(band(vi))), B.at(*vi), ix.QScal(Fraction(0)))

    def clean_target(B, vi):
        return ix.ite(band(vi), real_q(B.at(*vi).c[0]), ix.QScal(Fraction(0)))

    def pre_clean(B, vi):            # B - off_diag
        return ix.ite(band(vi), B.at(*vi), ix.QScal(Fraction(0)))

    def cl_outer(it, fr, k):
        B = fr.vars["B"]
        return lambda vi: ix.ite(vi[0] < k, clean_target(B, vi), pre_clean(B, vi))

    def cl_inner(it, fr, k):
        B, i = fr.vars["B"], fr.vars["i"]
        return lambda vi: ix.ite(sor(vi[0] < i, sand(vi[0] == i, vi[1] < k)), clean_target(B, vi), pre_clean(B, vi))
    q = TD + "check_tridiagonal"
    rules = {(q, 0): FunctionalInv(arrays={"off_diag": off_outer}, tag="off.outer."), (q, 1): FunctionalInv(arrays={"off_diag": off_inner}, tag="off.inner."),
             (q, 2): FunctionalInv(arrays={"B_clean": cl_outer}, tag="clean.outer."), (q, 3): FunctionalInv(arrays={"B_clean": cl_inner}, tag="clean.inner.")}

    def setup_ct(I, ctx):
        (n,) = dims(ctx, "n")
        ctx.assume(n >= 2, base=True)
        B = ix.input_array("B", [n, n], quat=True)
        return [B], {}, (B, n)

    def post_ct(I, ctx, outcome, val, aux):
        B, n = aux
        if outcome != "return" or not isinstance(val, ix.IArr):
            return [("returns", False)]
        (i, j) = ix.fresh_indices(ctx, [n, n])
        e = val.at(i, j)
        return [("returns", True), ("shape", sand(val.shape[0] == n, val.shape[1] == n)),
                ("exactly_real", sand(e.c[1] == 0, e.c[2] == 0, e.c[3] == 0)),
                ("exactly_tridiagonal", sor(band((i, j)), e == ix.QScal(Fraction(0)))),
                ("keeps_real_part_of_band", sor(snot(band((i, j))), e.c[0] == B.at(i, j).c[0]))]
    run_case(rep, P, q, "", setup_ct, post_ct, lib=lib(), loop_rules=rules, clauses=["returns", "shape", "exactly_real", "exactly_tridiagonal", "keeps_real_part_of_band"],
             replay=replay_tridiag, timeout_s=40)

    # ------------------------------------------------------------------ tridiagonalize glue and guards
    def k_herm(I, args, kwargs):
        out = args[0].conj().transpose()
        cur().ghost.setdefault("herm_calls", []).append((args[0], out))
        return out

    def k_internal(I, args, kwargs):
        (A,) = args
        n = A.shape[0]
        Pm, Bm = ix.input_array("Pint", [n, n], quat=True), ix.input_array("Bint", [n, n], quat=True)
        cur().ghost["internal"] = (A, Pm, Bm)
        return Pm, Bm

    def k_check(I, args, kwargs):
        (B,) = args
        out = ix.input_array("Bclean", list(B.shape), quat=True)
        cur().ghost["check"] = (B, out)
        return out

    def allclose_model(val):
        def f(a, b, rtol=None, atol=None, **kw):
            cur().ghost["allclose_atol"] = atol
            cur().ghost["allclose_args"] = (a, b)
            return val
        return f

    def guard_compares_whole_matrix(ctx, A):
        """the Hermitian test is np.allclose of the WHOLE argument with its conjugate transpose (diagonal included: a Hermitian matrix has a real diagonal)"""
        ab = ctx.ghost.get("allclose_args")
        hs = [o for a, o in ctx.ghost.get("herm_calls", []) if a is A]
        return bool(ab is not None and hs and ((ab[0] is A and any(ab[1] is h for h in hs)) or (ab[1] is A and any(ab[0] is h for h in hs))))

    def mk(val):
        l = Library("idx")
        l.np.table["allclose"] = allclose_model(val)
        return l
    tcon = {U + "quat_hermitian": k_herm, TD + "internal_tridiagonalizer": k_internal, TD + "check_tridiagonal": k_check}

    def setup_t(I, ctx):
        (n,) = dims(ctx, "n")
        ctx.assume(n >= 2, base=True)
        A = ix.input_array("A", [n, n], quat=True)
        return [A], {}, A

    def post_t(I, ctx, outcome, val, A):
        g1, g2 = ctx.ghost.get("internal"), ctx.ghost.get("check")
        ok = outcome == "return" and isinstance(val, tuple) and len(val) == 2 and g1 is not None and g2 is not None
        if not ok:
            return [("returns_pair", False)]
        atol = ctx.ghost.get("allclose_atol")
        return [("returns_pair", True), ("reduces_the_argument", g1[0] is A), ("P_of_internal_reduction", val[0] is g1[1]),
                ("B_is_cleaned_internal_B", g2[0] is g1[2] and val[1] is g2[1]),
                ("hermitian_guard_tolerance_le_1e-8", isinstance(atol, Fraction) and atol <= Fraction(1, 10**8)),
                ("hermitian_guard_compares_the_whole_matrix_with_its_conjugate_transpose", guard_compares_whole_matrix(ctx, A))]
    run_case(rep, P, TD + "tridiagonalize", "hermitian", setup_t, post_t, lib=mk(True), contracts=tcon,
             clauses=["returns_pair", "reduces_the_argument", "P_of_internal_reduction", "B_is_cleaned_internal_B", "hermitian_guard_tolerance_le_1e-8",
                      "hermitian_guard_compares_the_whole_matrix_with_its_conjugate_transpose"], replay=replay_tridiag)
    raises = lambda I, ctx, outcome, val, aux: [("raises_ValueError", outcome == "raise" and val.exc_type == "ValueError")]
    run_case(rep, P, TD + "tridiagonalize", "guard_nonhermitian", setup_t, raises, lib=mk(False), contracts=tcon, clauses=["raises_ValueError"])

    def setup_ns(I, ctx):
        m, n = dims(ctx, "m", "n")
        ctx.assume(m != n, base=True)
        return [ix.input_array("A", [m, n], quat=True)], {}, None
    run_case(rep, P, TD + "tridiagonalize", "guard_nonsquare", setup_ns, raises, lib=mk(True), contracts=tcon, clauses=["raises_ValueError"])
    run_case(rep, P, TD + "tridiagonalize", "guard_1x1", lambda I, ctx: ([ix.input_array("A", [1, 1], quat=True)], {}, None), raises, lib=mk(True), contracts=tcon, clauses=["raises_ValueError"])

    # ------------------------------------------------------------------ eigendecomposition glue
    def k_tridiag(I, args, kwargs):
        (A,) = args
        n = A.shape[0]
        Pm = ix.input_array("Ptd", [n, n], quat=True)
        Bre = ix.input_array("Btd", [n, n])                     # contract of tridiagonalize: B is exactly real
        Bm = ix.IArr.from_fn([n, n], lambda vi: real_q(Bre.at(*vi)), quat=True)
        cur().ghost["tridiag"] = (A, Pm, Bre)
        return Pm, Bm

    def k_matmat(I, args, kwargs):
        A, B = args
        from ..nc import dims_equal
        dims_equal(A.shape[1], B.shape[0], "conformable.matmul")
        out = ix.input_array(cur().fresh_name("prod"), [A.shape[0], B.shape[1]], quat=True)
        cur().ghost.setdefault("products", []).append((A, B, out))
        return out

    def eig_solver(name):
        def f(Bc, *a, **k):
            n = Bc.shape[0]
            lam = ix.input_array("lam", [n])
            Vc = ix.input_array("Vc", [n, n], cplx=True)
            cur().ghost.setdefault("eig_calls", []).append((name, Bc, lam, Vc))
            if name == "eig":
                return ix.IArr.from_fn([n], lambda vi: ix.CScal(lam.at(*vi)), cplx=True), Vc
            return lam, Vc
        return f

    def mk_e(val):
        l = mk(val)
        l.np.table["linalg"].table["eig"] = eig_solver("eig")
        l.np.table["linalg"].table["eigh"] = eig_solver("eigh")
        return l
    econ = {U + "quat_hermitian": k_herm, U + "quat_matmat": k_matmat, "quatica/decomp/tridiagonalize.py::tridiagonalize": k_tridiag}

    def conv_rules():
        qn = EG + "quaternion_eigendecomposition"

        def bc_outer(it, fr, k):
            B = fr.vars["B"]
            return lambda vi: ix.ite(vi[0] < k, ix.CScal(B.at(*vi).c[0], B.at(*vi).c[1]), ix.CScal(Fraction(0)))

        def bc_inner(it, fr, k):
            B, i = fr.vars["B"], fr.vars["i"]
            return lambda vi: ix.ite(sor(vi[0] < i, sand(vi[0] == i, vi[1] < k)), ix.CScal(B.at(*vi).c[0], B.at(*vi).c[1]), ix.CScal(Fraction(0)))

        def ev_outer(it, fr, k):
            V = fr.vars["eigenvectors_complex"]
            return lambda vi: ix.ite(vi[0] < k, ix.QScal(ix.CScal.lift(V.at(*vi)).re, ix.CScal.lift(V.at(*vi)).im, Fraction(0), Fraction(0)), ix.QScal(Fraction(0)))

        def ev_inner(it, fr, k):
            V, i = fr.vars["eigenvectors_complex"], fr.vars["i"]
            return lambda vi: ix.ite(sor(vi[0] < i, sand(vi[0] == i, vi[1] < k)),
                                     ix.QScal(ix.CScal.lift(V.at(*vi)).re, ix.CScal.lift(V.at(*vi)).im, Fraction(0), Fraction(0)), ix.QScal(Fraction(0)))
        return {(qn, 0): FunctionalInv(arrays={"B_complex": bc_outer}, tag="Bc.outer."), (qn, 1): FunctionalInv(arrays={"B_complex": bc_inner}, tag="Bc.inner."),
                (qn, 2): FunctionalInv(arrays={"eigenvectors_B": ev_outer}, tag="Vq.outer."), (qn, 3): FunctionalInv(arrays={"eigenvectors_B": ev_inner}, tag="Vq.inner.")}

    def setup_e(I, ctx):
        (n,) = dims(ctx, "n")
        ctx.assume(n >= 2, base=True)
        A = ix.input_array("A", [n, n], quat=True)
        return [A], {}, (A, n)

    def post_e(I, ctx, outcome, val, aux):
        A, n = aux
        g = ctx.ghost
        td, calls, prods = g.get("tridiag"), g.get("eig_calls", []), g.get("products", [])
        ok = outcome == "return" and isinstance(val, tuple) and len(val) == 2 and td is not None and len(calls) == 1 and len(prods) == 1
        if not ok:
            return [("returns_from_one_eigensolve", False)]
        name, Bc, lam, Vc = calls[0]
        _, Pm, Bre = td
        (i, j) = ix.fresh_indices(ctx, [n, n])
        Pa, Vb, out = prods[0]
        out_l = [("returns_from_one_eigensolve", True), ("tridiagonalises_the_argument", td[0] is A),
                 ("solver_has_orthonormal_eigenvector_contract", name == "eigh"),
                 ("solves_the_real_tridiagonal_matrix", ix.CScal.lift(Bc.at(i, j)) == ix.CScal(Bre.at(i, j), Fraction(0))),
                 ("left_factor_is_P_hermitian", Pa.at(i, j) == Pm.at(j, i).conj()),
                 ("right_factor_is_solver_vectors", Vb.at(i, j) == ix.QScal(ix.CScal.lift(Vc.at(i, j)).re, ix.CScal.lift(Vc.at(i, j)).im, Fraction(0), Fraction(0))),
                 ("returns_back_transformed_vectors", val[1] is out)]
        ev = val[0]
        (k_,) = ix.fresh_indices(ctx, [n], "l")
        e = ev.at(k_) if isinstance(ev, ix.IArr) else None
        out_l.append(("returns_solver_eigenvalues", e is not None and ix.CScal.lift(e) == ix.CScal(lam.at(k_), Fraction(0))))
        out_l.append(("hermitian_guard_compares_the_whole_matrix_with_its_conjugate_transpose", guard_compares_whole_matrix(ctx, A)))
        return out_l
    ecl = ["hermitian_guard_compares_the_whole_matrix_with_its_conjugate_transpose", "returns_from_one_eigensolve", "tridiagonalises_the_argument", "solver_has_orthonormal_eigenvector_contract", "solves_the_real_tridiagonal_matrix",
           "left_factor_is_P_hermitian", "right_factor_is_solver_vectors", "returns_back_transformed_vectors", "returns_solver_eigenvalues"]
    run_case(rep, P, EG + "quaternion_eigendecomposition", "hermitian", setup_e, post_e, lib=mk_e(True), contracts=econ, loop_rules=conv_rules(), clauses=ecl,
             replay=replay_eig, timeout_s=30)
    run_case(rep, P, EG + "quaternion_eigendecomposition", "guard_nonhermitian", setup_e, raises, lib=mk_e(False), contracts=econ, loop_rules=conv_rules(), clauses=["raises_ValueError"])
    run_case(rep, P, EG + "quaternion_eigendecomposition", "guard_nonsquare", setup_ns, raises, lib=mk_e(True), contracts=econ, loop_rules=conv_rules(), clauses=["raises_ValueError"])

    # the Hermitian guard comes before every shortcut: a 1x1 matrix with a non-real entry is not Hermitian and is rejected like any other
    run_case(rep, P, EG + "quaternion_eigendecomposition", "guard_nonhermitian_1x1", lambda I, ctx: ([ix.input_array("A", [1, 1], quat=True)], {}, None), raises,
             lib=mk_e(False), contracts=econ, loop_rules=conv_rules(), clauses=["raises_ValueError"])

    def setup_1(I, ctx):
        a = SReal.var("a")
        A = ix.IArr.from_fn([1, 1], lambda vi: real_q(a), quat=True)
        return [A], {}, a

    def post_1(I, ctx, outcome, val, a):
        ok = outcome == "return" and isinstance(val, tuple) and len(val) == 2 and isinstance(val[0], ix.IArr) and isinstance(val[1], ix.IArr)
        if not ok:
            return [("returns_pair", False)]
        return [("returns_pair", True), ("eigenvalue_is_the_entry", ix.CScal.lift(val[0].at(0)) == ix.CScal(a, Fraction(0))),
                ("eigenvector_is_one", ix.QScal.lift(val[1].at(0, 0)) == ix.QScal(Fraction(1)))]
    run_case(rep, P, EG + "quaternion_eigendecomposition", "1x1", setup_1, post_1, lib=mk_e(True), contracts=econ, loop_rules=conv_rules(),
             clauses=["returns_pair", "eigenvalue_is_the_entry", "eigenvector_is_one"], replay=replay_eig)

    # ------------------------------------------------------------------ back-transformation lemma (free algebra)
    with Ctx("C08.lemma") as ctx:
        ncm.reset_atoms()
        (n,) = dims(ctx, "n")
        Pm = NC.atom(Atom("P", n, n, "orth", alg="H"))
        A = NC.atom(Atom("A", n, n, "gen", alg="H"))
        V = NC.atom(Atom("V", n, n, "gen", alg="H"))
        Vo = NC.atom(Atom("Vo", n, n, "orth", alg="H"))
        B = Pm @ A @ Pm.star
        W = Pm.star @ V
        st, be, sc, det = ncm.nc_equal_obligation(A @ W, Pm.star @ (B @ V), ctx.hyps())
        rep.add(Obligation(f"{P}.lemma.backtransform", "spec", "all-shapes", st, be, sc, det, kind="lemma"))
        Wo = Pm.star @ Vo
        st, be, sc, det = ncm.nc_equal_obligation(Wo.star @ Wo, NC.eye(n), ctx.hyps())
        rep.add(Obligation(f"{P}.lemma.unitary_iff_solver_orthonormal", "spec", "all-shapes", st, be, sc, det, kind="lemma"))
        st, _, _, _ = ncm.nc_equal_obligation(W.star @ W, NC.eye(n), ctx.hyps())
        rep.canary("C08.canary.unitary_without_orthonormal_solver", st == smt.REFUTED)

    from .c09 import householder_vector_all_lengths, householder_matrix_entries_all_lengths
    householder_vector_all_lengths(rep, P)
    householder_matrix_entries_all_lengths(rep, P)
    householder_obligations(rep, P, (1, 2) if tier == "quick" else (1, 2, 3))


# ---------------------------------------------------------------------------------------------------
# internal_tridiagonalizer: modular proof of the recursion in 1 + (r-1) block form
class BMat:
    """2x2 block matrix over the free *-algebra with block sizes (1, r-1).  Only the block operations the recursion
    uses are modelled: A[1:, 0], X[1:, 1:] (read / write), copy, quaternion product and conjugate transpose."""
    qv_value = True
    ndim = 2

    def __init__(self, blocks, rm1):
        self.b = [list(r) for r in blocks]
        self.rm1 = rm1

    @property
    def shape(self):
        return (self.rm1 + 1, self.rm1 + 1)

    @property
    def dtype(self):
        from ..values import QUAT
        return QUAT

    def copy(self):
        return BMat(self.b, self.rm1)

    def has_attr(self, name):
        return name in ("shape", "ndim", "dtype", "copy")

    @staticmethod
    def _tail(sl):
        return isinstance(sl, slice) and sl.start == 1 and sl.stop is None and sl.step is None

    def getitem(self, idx):
        from ..values import HMat
        if isinstance(idx, tuple) and len(idx) == 2:
            if self._tail(idx[0]) and idx[1] == 0:
                out = HMat(self.b[1][0])
                out.one_dim = True
                return out
            if self._tail(idx[0]) and self._tail(idx[1]):
                return HMat(self.b[1][1])
        raise ix.OutOfReach("block access outside the recursion's pattern")

    def setitem(self, idx, val):
        from ..values import HMat
        if isinstance(idx, tuple) and len(idx) == 2 and self._tail(idx[0]) and self._tail(idx[1]) and isinstance(val, HMat):
            ncm.dims_equal(val.shape[0], self.rm1, "block.rows")
            ncm.dims_equal(val.shape[1], self.rm1, "block.cols")
            self.b[1][1] = val.p
            return
        raise ix.OutOfReach("block write outside the recursion's pattern")

    @staticmethod
    def eye(rm1):
        return BMat([[NC.eye(1), NC.zero(1, rm1)], [NC.zero(rm1, 1), NC.eye(rm1)]], rm1)

    def mul(self, o):
        return BMat([[self.b[i][0] @ o.b[0][j] + self.b[i][1] @ o.b[1][j] for j in range(2)] for i in range(2)], self.rm1)

    def herm(self):
        return BMat([[self.b[0][0].star, self.b[1][0].star], [self.b[0][1].star, self.b[1][1].star]], self.rm1)


def recursion_obligations(rep: Report):
    """Contract C(r) of internal_tridiagonalizer for an r x r input (r >= 2), proved from C(r-1) for the recursive call and
    the Householder contract (H unitary, H x = nu e1 - C09's obligations):
        P is unitary and P = diag(1, P'),  B = P A P^H,  B[1:, 0] = nu e1 (nothing below the sub-diagonal in column 0),
        B[0, 0] = A[0, 0],  B[1:, 1:] is the result of the recursive call on (H A22 H^H) (tridiagonal by C(r-1))."""
    from ..values import HMat, fresh_hmat
    from ..kernels import ALGEBRA
    lib = Library("nc")
    lib.qmode = "H"

    class E1:
        qv_value = True

        def __init__(self, n):
            self.n, self.set0 = n, False
            self.shape = (n,)

        def setitem(self, idx, val):
            if idx == 0 and val == 1:
                self.set0 = True
            else:
                raise ix.OutOfReach("unit vector written at another position")
    lib.np.table["zeros"] = lambda shape, dtype=None: E1(shape) if not isinstance(shape, tuple) else ix._raise("zeros form") if False else E1(shape[0])
    lib.np.table["eye"] = lambda n, dtype=None: BMat.eye(cur().ghost["rm1"])

    def k_house(I, args, kwargs):
        a, v = args
        g = cur().ghost
        ok = isinstance(a, HMat) and ncm.nc_syntactically_equal(a.p, g["x"]) and isinstance(v, E1) and v.set0
        if not ok:
            raise ix.OutOfReach("householder_matrix called on something else than (first sub-column, e1)")
        g["house_called"] = True
        return HMat(NC.atom(g["Hs"]))

    def k_rec(I, args, kwargs):
        (M,) = args
        g = cur().ghost
        rm1 = g["rm1"]
        Qs = Atom("Qs", rm1, rm1, "orth", alg="H")
        # C(r-1): Q_sub = diag(1, Q'), i.e. Q_sub e1 = e1 and e1^H Q_sub = e1^H
        ncm.add_rewrite((("Qs", False), ("e1", False)), (("e1", False),))
        ncm.add_rewrite((("Qs", True), ("e1", False)), (("e1", False),))
        g["rec"] = (M, Qs)
        q = NC.atom(Qs)
        return HMat(q), HMat(q @ M.p @ q.star)

    def k_mm(I, args, kwargs):
        A, B = args
        if isinstance(A, BMat) and isinstance(B, BMat):
            return A.mul(B)
        return ALGEBRA[U + "quat_matmat"](I, args, kwargs)

    def k_h(I, args, kwargs):
        (A,) = args
        if isinstance(A, BMat):
            return A.herm()
        return ALGEBRA[U + "quat_hermitian"](I, args, kwargs)
    contracts = {U + "quat_matmat": k_mm, U + "quat_hermitian": k_h, TD + "householder_matrix": k_house, TD + "internal_tridiagonalizer": k_rec}

    for case in ("r_eq_2", "r_gt_2"):
        def setup(I, ctx, case=case):
            rm1 = SInt.var("rm1")
            ctx.assume(rm1 >= 1, base=True)
            ctx.assume((rm1 == 1) if case == "r_eq_2" else (rm1 > 1), base=True)
            nu = SReal.var("nu")
            Hs = Atom("Hs", rm1, rm1, "orth", alg="H")
            e1 = Atom("e1", rm1, 1, "gen", alg="H")
            a = Atom("a00", 1, 1, "sym", alg="H")
            A22 = Atom("A22", rm1, rm1, "sym", alg="H")
            # the sub-column x, written through the reflector that maps it to nu e1:  x = nu H^H e1   (H x = nu e1)
            x = (NC.atom(Hs).star @ NC.atom(e1)).scale(nu)
            A = BMat([[NC.atom(a), x.star], [x, NC.atom(A22)]], rm1)
            ctx.ghost.update({"rm1": rm1, "Hs": Hs, "x": x, "nu": nu})
            return [A], {}, dict(A=A, rm1=rm1, nu=nu, x=x)

        def post(I, ctx, outcome, val, aux, case=case):
            if outcome != "return" or not (isinstance(val, tuple) and len(val) == 2 and all(isinstance(v, BMat) for v in val)):
                return [("returns_block_pair", False)]
            Pm, Bm = val
            A, rm1, nu = aux["A"], aux["rm1"], aux["nu"]
            out = [("returns_block_pair", True), ("householder_on_first_subcolumn", bool(ctx.ghost.get("house_called")))]
            I2 = BMat.eye(rm1)
            PPh, PhP = Pm.mul(Pm.herm()), Pm.herm().mul(Pm)
            PAP = Pm.mul(A).mul(Pm.herm())
            for i in range(2):
                for j in range(2):
                    out.append((f"P_unitary.PPh[{i}{j}]", PPh.b[i][j], I2.b[i][j]))
                    out.append((f"P_unitary.PhP[{i}{j}]", PhP.b[i][j], I2.b[i][j]))
                    out.append((f"B_is_P_A_Ph[{i}{j}]", Bm.b[i][j], PAP.b[i][j]))
            out.append(("P_is_diag_1_Pprime", not ncm.nc_diff_words(Pm.b[0][0], NC.eye(1)) and not Pm.b[0][1].t and not Pm.b[1][0].t))
            e1 = NC.atom(ncm.ATOMS["e1"])
            out.append(("first_column_reduced", Bm.b[1][0], e1.scale(nu)))
            out.append(("corner_unchanged", Bm.b[0][0], A.b[0][0]))
            if case == "r_gt_2":
                rec = ctx.ghost.get("rec")
                ok = rec is not None
                out.append(("recursion_on_trailing_block", ok))
                if ok:
                    M, Qs = rec
                    Hn = NC.atom(ctx.ghost["Hs"])
                    out.append(("recursive_argument_is_H_A22_Hh", M.p, Hn @ A.b[1][1] @ Hn.star))
                    q = NC.atom(Qs)
                    out.append(("trailing_block_is_recursive_result", Bm.b[1][1], q @ M.p @ q.star))
            else:
                out.append(("no_recursion_for_2x2", ctx.ghost.get("rec") is None))
            return out
        cl = ["returns_block_pair", "householder_on_first_subcolumn", "P_is_diag_1_Pprime", "first_column_reduced", "corner_unchanged"] + \
             [f"{nm}[{i}{j}]" for nm in ("P_unitary.PPh", "P_unitary.PhP", "B_is_P_A_Ph") for i in range(2) for j in range(2)] + \
             (["recursion_on_trailing_block", "recursive_argument_is_H_A22_Hh", "trailing_block_is_recursive_result"] if case == "r_gt_2" else ["no_recursion_for_2x2"])
        run_case(rep, P, TD + "internal_tridiagonalizer", f"recursion.{case}", setup, post, lib=lib, contracts=contracts, clauses=cl, replay=replay_tridiag, timeout_s=30)


# ---------------------------------------------------------------------------------------------------
def hermitian_from_spectrum(rng, lam):
    from .. import runtime as rt
    n = len(lam)
    Q = rt.gram_schmidt_unitary(rng, n)
    D = np.zeros((n, n, 4))
    for i in range(n):
        D[i, i, 0] = lam[i]
    H = rt.qmm(rt.qmm(Q, D), rt.qH(Q))
    return 0.5 * (H + rt.qH(H))


def check_tridiag(A4):
    from .. import runtime as rt
    td = rt.real().tridiagonalize
    n = A4.shape[0]
    Pm, Bm = td.tridiagonalize(rt.q_from4(A4))
    P4, B4 = rt.q_to4(Pm), rt.q_to4(Bm)
    sc = max(1.0, rt.fro(A4))
    if not rt.fro(rt.qmm(rt.qH(P4), P4) - rt.eye4(n)) <= 1e-11:
        return {"what": "P is not unitary", "err": rt.fro(rt.qmm(rt.qH(P4), P4) - rt.eye4(n))}
    if np.abs(B4[..., 1:]).max() != 0:
        return {"what": "B is not exactly real"}
    for i in range(n):
        for j in range(n):
            if abs(i - j) > 1 and B4[i, j, 0] != 0:
                return {"what": "B is not exactly tridiagonal"}
    if not np.allclose(B4[..., 0], B4[..., 0].T, atol=1e-10 * sc):
        return {"what": "B is not symmetric"}
    e = rt.fro(rt.qmm(rt.qmm(P4, A4), rt.qH(P4)) - B4)
    if not e <= 1e-9 * sc:
        return {"what": "P A P^H != B", "err": e}
    return None


def check_eig(A4, lam_true=None):
    from .. import runtime as rt
    eg = rt.real().eigen
    n = A4.shape[0]
    lam, V = eg.quaternion_eigendecomposition(rt.q_from4(A4))
    lam = np.asarray(lam)
    V4 = rt.q_to4(V)
    sc = max(1.0, rt.fro(A4))
    if not (np.abs(lam.imag).max() <= 1e-9 * sc):
        return {"what": "eigenvalues are not real", "lam": lam}
    if lam_true is not None and not np.allclose(np.sort(lam.real), np.sort(lam_true), atol=1e-8 * sc):
        return {"what": "eigenvalues differ from the prescribed spectrum", "got": np.sort(lam.real), "want": np.sort(lam_true)}
    e = rt.fro(rt.qmm(rt.qH(V4), V4) - rt.eye4(n))
    if not e <= 1e-8:
        return {"what": "V is not unitary", "err": e}
    D = np.zeros((n, n, 4))
    for i in range(n):
        D[i, i, 0] = lam[i].real
    e = rt.fro(rt.qmm(A4, V4) - rt.qmm(V4, D))
    if not e <= 1e-8 * sc:
        return {"what": "A V != V diag(lambda)", "err": e}
    e = rt.fro(rt.qmm(rt.qmm(V4, D), rt.qH(V4)) - A4)
    if not e <= 1e-8 * sc:
        return {"what": "A != V diag(lambda) V^H", "err": e}
    return None


def replay_tridiag(seed):
    rng = np.random.default_rng(seed)
    for lam in ([1.0, 2.0], [3.0, -1.0, 0.5], [2.0, 2.0, 2.0, 5.0], [0.0, 0.0, 1.0]):
        A4 = hermitian_from_spectrum(rng, lam)
        try:
            res = check_tridiag(A4)
        except Exception as e:
            res = {"exception": f"{type(e).__name__}: {e}"}
        if res:
            res.update({"failed": True, "A": A4, "spectrum": lam})
            return res
    return {"failed": False}


def replay_eig(seed):
    rng = np.random.default_rng(seed)
    for lam in ([1.5], [1.0, 2.0], [3.0, -1.0, 0.5], [2.0, 2.0, 2.0, 5.0], [0.0, 0.0, 1.0]):
        A4 = hermitian_from_spectrum(rng, lam)
        try:
            res = check_eig(A4, lam)
        except Exception as e:
            res = {"exception": f"{type(e).__name__}: {e}"}
        if res:
            res.update({"failed": True, "A": A4, "spectrum": lam})
            return res
    return {"failed": False}


def bounded(rep: Report, tier, seed):
    from .. import runtime as rt
    rng = np.random.default_rng(seed)
    nmax = 5 if tier == "quick" else 6
    b = rep.add_bounded(Bounded("hermitian_classes", f"n = 1..{nmax} (n >= 2 for tridiagonalize); generic, integer, sparse patterns with zero sub-columns, prescribed spectra with repeats / zeros, tridiagonal / diagonal inputs, scaling 1e-8..1e8",
                                "P unitary, B exactly real tridiagonal, P A P^H = B; eigenvalues real = prescribed spectrum, V unitary, A V = V diag(lambda), A = V diag(lambda) V^H"))
    for n in range(1, nmax + 1):
        cases = {"generic": hermitian_from_spectrum(rng, list(rng.standard_normal(n) * 2)),
                 "repeated": hermitian_from_spectrum(rng, [2.0] * max(1, n - 1) + ([5.0] if n > 1 else [])),
                 "zeros": hermitian_from_spectrum(rng, [0.0] * max(1, n - 1) + ([1.0] if n > 1 else [])),
                 "all_equal": hermitian_from_spectrum(rng, [3.0] * n),
                 "diagonal": None, "tridiagonal": None, "integer": None, "zero_subcolumn": None, "tiny": None, "huge": None, "zero": np.zeros((n, n, 4))}
        spec = {"generic": None, "repeated": [2.0] * max(1, n - 1) + ([5.0] if n > 1 else []), "zeros": [0.0] * max(1, n - 1) + ([1.0] if n > 1 else []), "all_equal": [3.0] * n}
        D = np.zeros((n, n, 4))
        for i in range(n):
            D[i, i, 0] = float(i) - 1.0
        cases["diagonal"] = D
        T3 = D.copy()
        for i in range(n - 1):
            T3[i, i + 1, 0] = T3[i + 1, i, 0] = 0.5 + i
        cases["tridiagonal"] = T3
        Zi = rng.integers(-3, 4, size=(n, n, 4)).astype(float)
        cases["integer"] = Zi + rt.qH(Zi)
        G = rng.standard_normal((n, n, 4))
        G = G + rt.qH(G)
        if n > 2:
            G[2:, 0] = 0
            G[0, 2:] = 0
        cases["zero_subcolumn"] = G
        if n >= 3:
            # block diagonal: the whole sub-column A[1:, k] is exactly zero at some level while the trailing block is dense
            Bd = np.zeros((n, n, 4))
            Bd[0, 0, 0] = 2.0
            Gb = rng.standard_normal((n - 1, n - 1, 4))
            Bd[1:, 1:] = Gb + rt.qH(Gb)
            cases["block_1_plus_rest"] = Bd
            if n >= 4:
                Be = np.zeros((n, n, 4))
                G2 = rng.standard_normal((2, 2, 4))
                Be[:2, :2] = G2 + rt.qH(G2)
                Gc = rng.standard_normal((n - 2, n - 2, 4))
                Be[2:, 2:] = Gc + rt.qH(Gc)
                cases["block_2_plus_rest"] = Be
            # zero sub-diagonal pivot with a non-zero tail below it
            Zp = rng.standard_normal((n, n, 4))
            Zp = Zp + rt.qH(Zp)
            Zp[1, 0] = 0.0
            Zp[0, 1] = 0.0
            cases["zero_pivot_nonzero_tail"] = Zp
        cases["tiny"] = cases["generic"] * 1e-8
        cases["huge"] = cases["generic"] * 1e8
        for kind, A4 in cases.items():
            if tier == "quick" and kind in ("tiny", "huge", "integer") and n % 2:
                continue
            b.case(f"{P}.bounded.eig", (n, kind), lambda A4=A4, kind=kind: check_eig(A4, spec.get(kind)), f"eigendecomposition of a {n}x{n} {kind} Hermitian matrix", inputs={"A": A4})
            if n >= 2:
                b.case(f"{P}.bounded.tridiagonalize", (n, kind), lambda A4=A4: check_tridiag(A4), f"tridiagonalisation of a {n}x{n} {kind} Hermitian matrix", inputs={"A": A4})
    b.samples.append({"n": 4, "kind": "repeated", "spectrum": [2, 2, 2, 5]})
    b.done()
    b2 = rep.add_bounded(Bounded("rejections", "non-Hermitian (generic, 1e-3 margin, corner defect), non-square, 1x1 for tridiagonalize", "must raise"))
    eg, td = rt.real().eigen, rt.real().tridiagonalize

    def must_raise(f, *a):
        def g():
            try:
                f(*a)
            except Exception:
                return None
            return {"what": "out-of-domain input was answered"}
        return g
    N4 = rng.standard_normal((3, 3, 4))
    H4 = hermitian_from_spectrum(rng, [1.0, 2.0, 3.0])
    Hm = H4.copy()
    Hm[2, 0, 1] += 1e-3
    Hd = H4.copy()
    Hd[1, 1, 2] += 0.5                     # Hermitian off the diagonal, one diagonal entry with a vector part
    Qd = np.zeros((3, 3, 4))
    for i_ in range(3):
        Qd[i_, i_] = rng.standard_normal(4)  # quaternion diagonal matrix
    one = lambda *q: np.array(q, dtype=float).reshape(1, 1, 4)
    for nm, a in (("eig:1x1_i", one(1.0, 2.0, 0.0, 0.0)), ("eig:1x1_jk", one(0.0, 0.0, 1.0, -1.0)), ("eig:1x1_tiny_imag", one(3.0, 0.0, 1e-3, 0.0))):
        b2.case(f"{P}.bounded.reject.{nm}", (nm,), must_raise(eg.quaternion_eigendecomposition, rt.q_from4(a)), f"rejection {nm}")
    for nm, f, a in (("eig:nonhermitian", eg.quaternion_eigendecomposition, N4), ("eig:margin", eg.quaternion_eigendecomposition, Hm), ("eig:nonsquare", eg.quaternion_eigendecomposition, rng.standard_normal((2, 3, 4))),
                     ("eig:diagonal_with_vector_part", eg.quaternion_eigendecomposition, Hd), ("eig:quaternion_diagonal", eg.quaternion_eigendecomposition, Qd),
                     ("tridiag:diagonal_with_vector_part", td.tridiagonalize, Hd), ("tridiag:quaternion_diagonal", td.tridiagonalize, Qd),
                     ("tridiag:nonhermitian", td.tridiagonalize, N4), ("tridiag:margin", td.tridiagonalize, Hm), ("tridiag:1x1", td.tridiagonalize, np.ones((1, 1, 4)) * [1, 0, 0, 0])):
        b2.case(f"{P}.bounded.reject.{nm}", (nm,), must_raise(f, rt.q_from4(a)), f"rejection {nm}")
    b2.done()
    b3 = rep.add_bounded(Bounded("call_histories", "results of an n = 2 / n = 3 call held while further calls of other sizes run", "held P, B, eigenvalues, V bit-for-bit unchanged by later calls"))

    def held(n):
        def g():
            A4 = hermitian_from_spectrum(np.random.default_rng(seed + n), [float(i + 1) for i in range(n)])
            P1, B1 = td.tridiagonalize(rt.q_from4(A4.copy()))
            lam1, V1 = eg.quaternion_eigendecomposition(rt.q_from4(A4.copy()))
            keep = [rt.q_to4(P1).copy(), rt.q_to4(B1).copy(), np.array(lam1).copy(), rt.q_to4(V1).copy()]
            for k in (2, 3, 4):
                C4 = hermitian_from_spectrum(np.random.default_rng(seed + 10 * k), [float(-i - 1) for i in range(k)])
                td.tridiagonalize(rt.q_from4(C4.copy()))
                eg.quaternion_eigendecomposition(rt.q_from4(C4.copy()))
            now = [rt.q_to4(P1), rt.q_to4(B1), np.array(lam1), rt.q_to4(V1)]
            for nm, a, b_ in zip(("P", "B", "eigenvalues", "V"), keep, now):
                if not np.array_equal(a, b_):
                    return {"what": f"{nm} returned by an earlier {n}x{n} call was changed by later calls"}
            return None
        return g
    for n in (2, 3):
        b3.case(f"{P}.bounded.call_history", (n,), held(n), f"results of a {n}x{n} call held across later calls")
    b3.done()


def run(tier, seed):
    rep = Report(P, tier, seed, "exploration")
    rep.assumptions += [
        "np.linalg.eigh contract: B V = V diag(w), V^T V = I, w real ascending (np.linalg.eig would only give B V = V diag(w)); np.allclose as documented",
        "tridiagonalize uses internal_tridiagonalizer through its contract (P unitary, B = P A P^H); the contract itself is discharged by recursion_obligations (block form, induction hypothesis on the recursive call)",
        "householder_vector / householder_matrix: all-lengths obligations in the vector-level domain plus shape-bounded entrywise obligations (lengths 1, 2 (3)); checked on the real code up to length 5 (C09)",
    ]
    rep.trusted += ["qv engine", "sympy 1.14", "z3 5.1", "library model"]
    import os
    if os.environ.get("QV_DEV_SKIP_DEDUCTIVE") != "1":     # development switch only: never set by a registered command
        deductive(rep, tier)
    recursion_obligations(rep)
    from ..frame import no_module_state
    no_module_state(rep, P, [TD + "tridiagonalize", TD + "internal_tridiagonalizer", TD + "householder_matrix", TD + "householder_vector", EG + "quaternion_eigendecomposition"], replay=replay_tridiag)
    bounded(rep, tier, seed)
    return rep


def replay(path):
    import json
    with open(path) as f:
        d = json.load(f)
    print(json.dumps({k: d[k] for k in ("property", "obligation", "text")}, indent=1))
    return run("quick", d.get("seed", 0)).finish()
