"""C19 - power iteration returns a unit vector and converges to the dominant eigenpair.

Deductive part (abstract quaternion algebra, kernels by contract, symbolic n, budget and tolerance):
  pi.unit_invariant   loop invariant ||v_k||_F = 1 at the loop head; every exit (budget exhausted, convergence,
                      stagnation, breakdown A v = 0) returns a vector of unit norm;
  pi.rayleigh         with return_eigenvalue the second value is ||v^H A v||_F / ||v^H v||_F for the returned v
                      (the modulus of the Rayleigh quotient; <= ||A||_2 by Cauchy-Schwarz, cited);
  pi.guards           non-square and empty input raise;
  nh.hermitian_path   on Hermitian input power_iteration_nonhermitian delegates to power_iteration, returns that
                      unit vector and an eigenvalue whose imaginary part is exactly 0 (complex and quaternion format).
  nh.adjoint_path     provenance domain (qv/term.py): for every result of the complex iteration on the adjoint, every n and
                      every option combination the returned quaternion vector is q / ||q||_F of one and the same q (or q
                      itself when ||q||_F is not positive, i.e. q = 0): unit norm by C19.lemma.normalisation.
Convergence to the dominant eigenpair from every start, the sign of lambda, the complex iteration itself and
everything about rounding are decided by the bounded stand-in (spectra with gap <= 0.8, both signs, seeds)."""
from __future__ import annotations

import itertools
from fractions import Fraction

import numpy as np
import z3

from .. import nc as ncm
from .. import smt
from ..core import Bounded, Obligation, Report, run_case
from ..interp import LoopRule
from ..kernels import ALGEBRA
from ..libmodel import Library
from ..nc import NC, Atom
from ..sym import Ctx, SInt, SReal, SBool, cur, sand, snot, sor, ssqrt
from ..values import HMat, fresh_hmat
from .c01 import dims

P = "C19"
U = "quatica/utils.py::"
DG = "quatica/data_gen.py::"


def k_create(I, args, kwargs):
    rows, cols = args[0], args[1]
    v = fresh_hmat("v0", rows, cols)
    cur().ghost["start"] = v
    return v


def k_isherm(val):
    def k(I, args, kwargs):
        return val
    return k


class UnitRule(LoopRule):
    modifies = ("v_k", "prev_norm_diff")

    def establish(self, it, fr, start):
        c = cur()
        v = fr.vars.get("v_k")
        ok = isinstance(v, HMat)
        c.require("inv.establish", ok and (ncm.fro2(v.p) == 1), "the normalised start vector has unit Frobenius norm", key="inv.establish.unit_norm")
        c.ghost["entry_unit"] = ok

    def havoc(self, it, fr, k):
        A = fr.vars["A"]
        n = A.shape[0]
        vk = fresh_hmat("vk", n, 1)
        cur().assume(ncm.fro2(vk.p) == 1)
        fr.vars["v_k"] = vk
        fr.vars["prev_norm_diff"] = SReal.var(cur().fresh_name("prevdiff"))
        cur().ghost["vk"] = vk

    def preserve(self, it, fr, k):
        c = cur()
        v = fr.vars.get("v_k")
        ok = isinstance(v, HMat)
        c.require("inv.preserve", ok and (ncm.fro2(v.p) == 1), "the new iterate has unit Frobenius norm", key="inv.preserve.unit_norm")


def deductive(rep: Report, tier):
    lib = Library("nc")
    lib.qmode = "H"
    contracts = dict(ALGEBRA)
    contracts[DG + "create_test_matrix"] = k_create
    contracts[U + "ishermitian"] = k_isherm(True)
    for ret in (True, False):
        def setup(I, ctx, ret=ret):
            (n,) = dims(ctx, "n")
            A = fresh_hmat("A", n, n)
            K, tol = SInt.var("max_iterations"), SReal.var("tol")
            ctx.assume(sand(K >= 0, tol >= 0), base=True)
            return [A], dict(max_iterations=K, tol=tol, return_eigenvalue=ret, verbose=False), (A, n)

        def post(I, ctx, outcome, val, aux, ret=ret):
            A, n = aux
            if outcome == "raise":
                # only the zero-norm start vector may raise here
                return [("raise_only_for_zero_start", val.exc_type == "ValueError" and ctx.valid(ncm.fro2(ctx.ghost["start"].p) == 0) is True)]
            if outcome != "return":
                return []
            v = val[0] if ret else val
            out = [("entry_state_unit", bool(ctx.ghost.get("entry_unit"))), ("returns_vector", isinstance(v, HMat))]
            if isinstance(v, HMat):
                out.append(("returned_vector_has_unit_norm", ncm.fro2(v.p) == 1))
                out.append(("shape", sand(v.shape[0] == n, v.shape[1] == 1)))
                if ret:
                    num = ssqrt(ncm.fro2(v.p.star @ A.p @ v.p))
                    den = ssqrt(ncm.fro2(v.p.star @ v.p))
                    out.append(("eigenvalue_is_rayleigh_modulus", val[1] == num / den))
                    out.append(("eigenvalue_nonnegative", val[1] >= 0))
            return out
        cl = ["entry_state_unit", "returns_vector", "returned_vector_has_unit_norm", "shape"] + (["eigenvalue_is_rayleigh_modulus", "eigenvalue_nonnegative"] if ret else [])
        run_case(rep, P, U + "power_iteration", "with_eigenvalue" if ret else "vector_only", setup, post, lib=lib, contracts=contracts,
                 loop_rules={(U + "power_iteration", 0): UnitRule()}, clauses=cl, replay=replay_pi, timeout_s=20)

    raises = lambda I, ctx, outcome, val, aux: [("raises_ValueError", outcome == "raise" and val.exc_type == "ValueError")]

    def setup_ns(I, ctx):
        m, n = dims(ctx, "m", "n")
        ctx.assume(m != n, base=True)
        return [fresh_hmat("A", m, n)], {}, None
    run_case(rep, P, U + "power_iteration", "guard_square", setup_ns, raises, lib=lib, contracts=contracts, loop_rules={(U + "power_iteration", 0): UnitRule()}, clauses=["raises_ValueError"])
    run_case(rep, P, U + "power_iteration", "guard_empty", lambda I, ctx: ([fresh_hmat("A", 0, 0)], {}, None), raises, lib=lib, contracts=contracts,
             loop_rules={(U + "power_iteration", 0): UnitRule()}, clauses=["raises_ValueError"])

    # Hermitian fast path of the complex-adjoint variant
    def k_pi(I, args, kwargs):
        A = args[0]
        v = fresh_hmat("vh", A.shape[0], 1)
        cur().assume(ncm.fro2(v.p) == 1)
        lam = SReal.var("lam_mag")
        cur().assume(lam >= 0)
        cur().ghost["pi_call"] = (A, kwargs, v, lam)
        return v, lam

    for fmt in ("complex", "quaternion"):
        def setup_h(I, ctx, fmt=fmt):
            (n,) = dims(ctx, "n")
            A = fresh_hmat("A", n, n)
            return [A], dict(eigenvalue_format=fmt), (A, n)

        def post_h(I, ctx, outcome, val, aux, fmt=fmt):
            A, n = aux
            g = ctx.ghost.get("pi_call")
            ok = outcome == "return" and isinstance(val, tuple) and len(val) == 3 and g is not None
            if not ok:
                return [("delegates_to_power_iteration", False)]
            v, lam_out, res = val
            out = [("delegates_to_power_iteration", g[0] is A and g[1].get("return_eigenvalue") is True)]
            from ..idx import CScal, QScal
            if fmt == "complex":
                out.append(("eigenvalue_real", isinstance(lam_out, CScal) and lam_out.im == 0 and lam_out.re == g[3]))
            else:
                out.append(("eigenvalue_real", isinstance(lam_out, QScal) and all(c == 0 for c in lam_out.c[1:]) and lam_out.c[0] == g[3]))
            out.append(("vector_is_the_unit_vector", getattr(v, "reshaped_from", None) is g[2] or v is g[2]))
            return out
        lib2 = Library("nc")
        lib2.qmode = "H"
        c2 = dict(ALGEBRA)
        c2.update({U + "_is_hermitian_quat": k_isherm(True), U + "power_iteration": k_pi})
        run_case(rep, P, U + "power_iteration_nonhermitian", f"hermitian_path.{fmt}", setup_h, post_h, lib=lib2, contracts=c2,
                 clauses=["delegates_to_power_iteration", "eigenvalue_real", "vector_is_the_unit_vector"], replay=replay_pi)
    # scalar lemma: normalising by the norm gives norm one  (c^2 x = 1 for c = 1/sqrt(x), x > 0)
    x, s = z3.Reals("x s")
    v = smt.prove([x > 0, s >= 0, s * s == x], (1 / s) * (1 / s) * x == 1, 10)
    rep.add(Obligation(f"{P}.lemma.normalisation", "spec", "all-shapes", v.status, v.backend, v.secs, v.model, kind="lemma"))
    rep.canary("C19.canary.unnormalised", smt.prove([x > 0, s >= 0, s * s == x], (1 / x) * (1 / x) * x == 1, 5).status == smt.REFUTED)
    nonhermitian_tail(rep)
    complex_iteration(rep)


def complex_iteration(rep: Report):
    """_power_iteration_complex in the free *-algebra (complex matrices are a *-algebra with a positive trace: the laws used -
    linearity, tr(X^* X) >= 0, ||cX||_F = |c| ||X||_F for real c - are the same as for quaternion matrices).  For every M, every
    budget and every tolerance setting the returned vector is NOT the zero vector (loop invariant ||v||_F > 0: the start vector is
    a non-zero Gaussian vector divided by a positive number, every later iterate is w / ||w|| with ||w|| != 0), which is what the
    final normalisation of the complex-adjoint variant needs."""
    from .. import term as tm
    from ..values import SymList
    from ..idx import CScal

    class CMat(HMat):
        """abstract complex matrix / vector"""
        takes_complex_scalar = True

        def __matmul__(self, o):
            if isinstance(o, HMat):
                return CMat(self.p @ o.p)
            return NotImplemented

        def _wrap(self, r):
            return CMat(r.p) if isinstance(r, HMat) and not isinstance(r, CMat) else r

        def __add__(self, o):
            if {getattr(self, "role", None), getattr(o, "role", None)} == {"gauss", "i_times_gauss"}:
                # g1 + 1j * g2 with independent standard normal g1, g2: a complex Gaussian vector; it is the zero vector with probability 0
                z = CMat(fresh_hmat(cur().fresh_name("z0"), self.p.rows, self.p.cols).p)
                cur().assume(ncm.fro2(z.p) > 0)
                cur().ghost["start_assumed_nonzero"] = True
                return z
            return self._wrap(HMat.__add__(self, o))

        __radd__ = __add__

        def __sub__(self, o):
            return self._wrap(HMat.__sub__(self, o))

        def __truediv__(self, s):
            return self._wrap(HMat.__truediv__(self, s))

        def __mul__(self, s):
            if isinstance(s, CScal):
                # complex multiple of an abstract complex array: an arbitrary array of the same shape (nothing is claimed about it)
                out = CMat(fresh_hmat(cur().fresh_name("cx"), self.p.rows, self.p.cols).p)
                if getattr(self, "role", None) == "gauss":
                    out.role = "i_times_gauss"
                return out
            return self._wrap(HMat.__mul__(self, s))

        __rmul__ = __mul__

        def _np_norm(self, args, ord=None):
            return tm.NPFloat(ssqrt(ncm.fro2(self.p)).z)

    class Rng:
        qv_value = True

        def has_attr(self, name):
            return name == "standard_normal"

        def standard_normal(self, n):
            g = CMat(fresh_hmat(cur().fresh_name("gauss"), n, 1).p)
            g.role = "gauss"
            return g

    def vdot(a, b):
        k = cur().fresh_name("vdot")
        return tm.np_complex(SReal.var("re_" + k), SReal.var("im_" + k))

    class Iter(LoopRule):
        modifies = ("v", "lam", "residuals")

        def establish(self, it, fr, start):
            v = fr.vars.get("v")
            cur().require("inv.establish", isinstance(v, CMat) and (ncm.fro2(v.p) > 0), "the scaled start vector is not the zero vector", key="cpi.inv.establish.nonzero")

        def havoc(self, it, fr, k):
            c = cur()
            M = fr.vars["M"]
            v = CMat(fresh_hmat(c.fresh_name("vk"), M.shape[0], 1).p)
            c.assume(ncm.fro2(v.p) > 0)
            fr.vars["v"] = v
            fr.vars["lam"] = tm.np_complex(SReal.var(c.fresh_name("lam_re")), SReal.var(c.fresh_name("lam_im")))
            L = SInt.var(c.fresh_name("n_res"))
            c.assume(L >= 0)
            fr.vars["residuals"] = SymList(L, "residuals")

        def preserve(self, it, fr, k):
            v = fr.vars.get("v")
            cur().require("inv.preserve", isinstance(v, CMat) and (ncm.fro2(v.p) > 0), "the new iterate is not the zero vector", key="cpi.inv.preserve.nonzero")

    lib = Library("nc")
    lib.qmode = "H"
    lib.np.table["random"].table["default_rng"] = lambda seed=None: Rng()
    lib.np.table["vdot"] = vdot
    lib.np.table["isfinite"] = lambda x: True          # A1: floats as reals
    FN = U + "_power_iteration_complex"
    for rt_none in (False, True):
        def setup(I, ctx, rt_none=rt_none):
            (n,) = dims(ctx, "n2")
            M = CMat(fresh_hmat("M", n, n).p)
            K, et, rtol = SInt.var("max_iter"), SReal.var("eig_tol"), SReal.var("res_tol")
            ctx.assume(sand(K >= 0, et >= 0, rtol >= 0), base=True)
            return [M], dict(max_iter=K, eig_tol=et, res_tol=None if rt_none else rtol, seed=0), (M, n)

        def post(I, ctx, outcome, val, aux):
            M, n = aux
            ok = outcome == "return" and isinstance(val, tuple) and len(val) == 3
            out = [("returns_value_vector_history", bool(ok))]
            if not ok:
                return out
            v = val[1]
            out.append(("returned_vector_is_not_zero", isinstance(v, CMat) and (ncm.fro2(v.p) > 0)))
            out.append(("returned_vector_length", isinstance(v, CMat) and sand(v.shape[0] == n, v.shape[1] == 1)))
            return out
        run_case(rep, P, FN, f"res_tol_{'none' if rt_none else 'given'}", setup, post, lib=lib, contracts=dict(ALGEBRA), loop_rules={(FN, 0): Iter()},
                 clauses=["returns_value_vector_history", "returned_vector_is_not_zero", "returned_vector_length"], replay=replay_pi, timeout_s=20)


def nonhermitian_tail(rep: Report):
    """Complex-adjoint variant, non-Hermitian path, in the provenance domain: for EVERY result (lam, v_c, residuals) of the
    complex iteration (arbitrary complex vector of even length 2n, arbitrary history) and every option combination the
    returned quaternion vector is  q / ||q||_F  of one and the same q (whatever q the mapping back builds - the property
    says nothing about the mapping itself, so its component order and the purification choice are deliberately NOT
    pinned down).  With the scalar lemma C19.lemma.normalisation this is the unit-norm clause for all n.  The only way
    out would be q = 0 (q is then returned as is): excluded for the mapping as written, by the postcondition of the complex
    iteration (v_c != 0, discharged in complex_iteration) and two layout facts about the Frobenius norm (a vector cut in two
    halves; a quaternion array stacked from Re/Im of two complex arrays).  If the code builds q in another way the layout
    facts simply do not apply and the fall-through clause is undecided / refuted only when q can really be 0."""
    from .. import term as tm
    from ..values import SymList
    from ..idx import CScal

    def k_adj(I, args, kwargs):
        A = args[0]
        n = A.shape[0]
        cur().ghost["adjoint_of"] = A
        return tm.TArr(("adjoint", A.node), (2 * n, 2 * n))

    def k_cpi(I, args, kwargs):
        c = cur()
        M = args[0]
        vc = tm.atom("v_c", (M.shape[0],))
        lam = CScal(SReal.var("lam_re"), SReal.var("lam_im"))
        L = SInt.var("n_residuals")
        c.assume(L >= 0)
        c.ghost["cpi"] = dict(M=M, v=vc, lam=lam, kwargs=dict(kwargs))
        # postcondition of _power_iteration_complex, discharged by complex_iteration(): the returned vector is not the zero vector
        c.assume(tm.norm_term([vc]) > 0)
        return lam, vc, SymList(L, "residuals")

    def k_fro(I, args, kwargs):
        """quat_frobenius_norm by contract (C15: root of the sum of the squared components), with the layout fact for a quaternion array
        assembled by as_quat_array(np.stack([p0, p1, p2, p3], axis=-1)):  ||q||^2 = sum ||p_i||^2,  ||Z||^2 = ||Re Z||^2 + ||Im Z||^2,  ||0|| = 0."""
        c = cur()
        X = args[0]
        nq = tm.norm_term([X])
        node = tm.strip(X.node)
        if node[0] == "asquat" and node[1][0] == "stack" and len(node[1][1]) == 4 and node[1][2] == -1:
            # ||q||^2 = sum of the squared norms of the four stacked planes (any planes, any order)
            planes = [tm.norm_term([tm.TArr(nd, ())]) for nd in node[1][1]]
            c.assume(nq * nq == planes[0] * planes[0] + planes[1] * planes[1] + planes[2] * planes[2] + planes[3] * planes[3])
            # ||Z||^2 = ||Re Z||^2 + ||Im Z||^2 for every complex array Z of which a plane is the real or imaginary part; ||0|| = 0
            for Z in {nd[1] for nd in node[1][1] if nd[0] in ("real", "imag")}:
                nz, nr, ni = (tm.norm_term([tm.TArr(x, ())]) for x in (Z, ("real", Z), ("imag", Z)))
                c.assume(nz * nz == nr * nr + ni * ni)
                if Z[0] == "zeros":
                    c.assume(nz == 0)
        return nq

    contracts = {U + "_is_hermitian_quat": k_isherm(False), U + "quaternion_to_complex_adjoint": k_adj,
                 U + "_power_iteration_complex": k_cpi, U + "quat_frobenius_norm": k_fro}
    FN = U + "power_iteration_nonhermitian"
    for purify in (True, False):
        for fmt in ("complex", "quaternion"):
            for retv in (True, False):
                def setup(I, ctx, purify=purify, fmt=fmt, retv=retv):
                    (n,) = dims(ctx, "n")
                    A = tm.atom("A", (n, n))
                    return [A], dict(block_purify=purify, eigenvalue_format=fmt, return_vector=retv), (A, n)

                def post(I, ctx, outcome, val, aux, purify=purify, fmt=fmt, retv=retv):
                    A, n = aux
                    g = ctx.ghost.get("cpi")
                    want = 3 if retv else 2
                    ok = outcome == "return" and isinstance(val, tuple) and len(val) == want and g is not None
                    out = [("returns_value_history_and_on_request_the_vector", bool(ok))]
                    if not ok:
                        return out
                    if not retv:
                        return out
                    q = val[0]
                    good = isinstance(q, tm.TArr)
                    out.append(("vector_shape", good and len(q.shape) == 1 and SBool.mk(SInt.lift(q.shape[0]) == SInt.lift(n))))
                    if not good:
                        out.append(("vector_is_q_over_its_own_frobenius_norm", False))
                        return out
                    node = tm.strip(q.node)
                    normalised = node[0] == "div" and len(node) == 3 and _scalar_of(node[2]) is not None
                    base = node[1] if normalised else node
                    nq = tm.norm_term([tm.TArr(base, (n,))])
                    # with the postcondition of the complex iteration (v_c != 0) and the layout facts the un-normalised fall-through is unreachable
                    if normalised:
                        out.append(("never_the_unnormalised_fall_through", True))
                    else:   # feasible in the model: either q can really be 0 or the layout facts do not cover this construction of q - not decided here
                        out.append(("never_the_unnormalised_fall_through", smt.UNDECIDED, "provenance", 0.0,
                                    "a path on which q is returned without normalisation is feasible in the model (q = 0 not excluded by the layout facts for this construction of q)"))
                    out.append(("hypotheses_consistent", ctx.valid(SBool(z3.BoolVal(False))) is not True))
                    if normalised:
                        out.append(("vector_is_q_over_its_own_frobenius_norm", SBool.mk(SReal.lift(_scalar_of(node[2])) == SReal.lift(nq))))
                    else:
                        # returned as is: only when its norm is not positive, i.e. q = 0
                        out.append(("vector_is_q_over_its_own_frobenius_norm", nq == 0))
                    return out
                cl = ["returns_value_history_and_on_request_the_vector"]
                if retv:
                    cl += ["vector_shape", "vector_is_q_over_its_own_frobenius_norm", "never_the_unnormalised_fall_through", "hypotheses_consistent"]
                lib = tm.install(Library("idx"))
                run_case(rep, P, FN, f"adjoint_path.purify_{purify}.{fmt}.{'vector' if retv else 'value_only'}", setup, post, lib=lib, contracts=contracts,
                         clauses=cl, replay=replay_pi, timeout_s=20)


def _scalar_of(key):
    """the z3 real behind a ("z3", name) key produced by term._key"""
    if isinstance(key, tuple) and len(key) == 2 and key[0] == "z3":
        return SReal(z3.Real(key[1]))
    return None


# ---------------------------------------------------------------------------------------------------
def check_pi(A4, lam, seed, hermitian=True, budget=3000, tol=1e-13):
    """lam: prescribed real spectrum (dominant first in modulus) or None for arbitrary input."""
    from .. import runtime as rt
    u = rt.real().utils
    n = A4.shape[0]
    kw = {} if tol is None else {"tol": tol}      # tol=None: the routine's own default tolerance
    np.random.seed(seed)
    v, est = u.power_iteration(rt.q_from4(A4), max_iterations=budget, return_eigenvalue=True, **kw)
    v4 = rt.q_to4(v).reshape(n, 1, 4)
    if not (abs(rt.fro(v4) - 1.0) <= 1e-10):
        return {"what": "returned vector is not of unit norm", "norm": rt.fro(v4)}
    np.random.seed(seed)
    v_only = u.power_iteration(rt.q_from4(A4), max_iterations=budget, **kw)
    if not np.array_equal(rt.q_to4(v_only).reshape(n, 1, 4), v4):
        return {"what": "vector differs between return_eigenvalue=True and False under the same seed"}
    ray = rt.fro(rt.qmm(rt.qH(v4), rt.qmm(A4, v4))) / rt.fro(rt.qmm(rt.qH(v4), v4))
    if not (abs(est - ray) <= 1e-10 * max(1.0, ray)):
        return {"what": "returned eigenvalue is not the modulus of the Rayleigh quotient of the returned vector", "returned": est, "rayleigh": ray}
    s2 = float(rt.singular_values(A4)[0]) if n else 0.0
    if not (est <= s2 * (1 + 1e-9) + 1e-12):
        return {"what": "eigenvalue estimate exceeds the spectral norm", "estimate": est, "norm2": s2}
    if lam is not None:
        l1 = lam[0]
        sc = max(1.0, abs(l1))
        if not (abs(est - abs(l1)) <= 1e-6 * sc):
            return {"what": "estimate differs from |lambda_max|", "estimate": est, "lambda_max": l1}
        Av = rt.qmm(A4, v4)
        r_pos, r_neg = rt.fro(Av - l1 * v4), rt.fro(Av + l1 * v4)
        if not (r_pos <= 1e-5 * sc):
            return {"what": "returned vector is not an eigenvector for the signed dominant eigenvalue", "residual": r_pos, "residual_with_flipped_sign": r_neg, "lambda_max": l1}
    return None


def check_nh(A4, seed, hermitian, **opts):
    from .. import runtime as rt
    u = rt.real().utils
    n = A4.shape[0]
    np.random.seed(seed)
    q, lam, res = u.power_iteration_nonhermitian(rt.q_from4(A4), max_iterations=opts.pop("budget", 2000), seed=seed, **opts)
    q4 = rt.q_to4(q).reshape(n, 1, 4)
    if not (abs(rt.fro(q4) - 1.0) <= 1e-9):
        return {"what": "complex-adjoint variant: vector not of unit norm", "norm": rt.fro(q4)}
    lc = complex(lam) if not hasattr(lam, "w") else complex(lam.w, lam.x)
    if hermitian and (abs(lc.imag) != 0.0 or (hasattr(lam, "w") and (lam.y != 0.0 or lam.z != 0.0))):
        return {"what": "Hermitian input but eigenvalue not real", "lam": str(lam)}
    return None


def replay_pi(seed):
    from .c08 import hermitian_from_spectrum
    rng = np.random.default_rng(seed)
    for lam in ([3.0, 1.0], [-4.0, 2.0, 1.0], [2.0], [5.0, -3.0, 0.0, 1.0]):
        A4 = hermitian_from_spectrum(rng, lam)
        try:
            res = check_pi(A4, lam, seed) or check_nh(A4, seed, True)
        except Exception as e:
            res = {"exception": f"{type(e).__name__}: {e}"}
        if res:
            res.update({"failed": True, "A": A4, "spectrum": lam})
            return res
    return {"failed": False}


def bounded(rep: Report, tier, seed):
    from .c08 import hermitian_from_spectrum
    rng = np.random.default_rng(seed)
    nmax = 5 if tier == "quick" else 6
    b = rep.add_bounded(Bounded("hermitian_spectra", f"n = 1..{nmax}; dominant eigenvalue positive / negative / mixed signs; gap ratio in {{0.2, 0.5, 0.8}}; seeds",
                                "unit vector; estimate = |lambda_max| <= ||A||_2; eigenpair residual with the signed eigenvalue; complex-adjoint variant unit and real"))
    seeds = [seed, seed + 7] if tier == "quick" else [seed, seed + 7, seed + 11, seed + 13]
    for n in range(1, nmax + 1):
        for sign in (1.0, -1.0):
            for gap in (0.2, 0.5, 0.8):
                lam = [sign * 4.0] + [4.0 * gap * ((-1) ** i) * (1 - 0.1 * i) for i in range(n - 1)]
                A4 = hermitian_from_spectrum(rng, lam)
                for sd in seeds:
                    if tier == "quick" and gap == 0.5 and sd != seed:
                        continue
                    b.case(f"{P}.bounded.power_iteration", (n, sign, gap, sd), lambda A4=A4, lam=lam, sd=sd: check_pi(A4, lam, sd), f"power iteration n={n} dominant {sign * 4.0} gap {gap} seed {sd}",
                           facts={"n": n, "dominant_sign": sign, "gap": gap}, inputs={"A": A4, "spectrum": lam, "seed": sd})
                    b.case(f"{P}.bounded.nonhermitian_variant", (n, sign, gap, sd, "h"), lambda A4=A4, sd=sd: check_nh(A4, sd, True) or check_nh(A4, sd, True, eigenvalue_format="quaternion", block_purify=False), f"complex-adjoint variant on Hermitian n={n}",
                           inputs={"A": A4, "seed": sd})
                    if sd == seed:
                        b.case(f"{P}.bounded.power_iteration_budget", (n, sign, gap, "budget"), lambda A4=A4, sd=sd: check_pi(A4, None, sd, budget=3) or check_pi(A4, None, sd, budget=100, tol=1e-10),
                               f"short budgets / default tolerance n={n}", inputs={"A": A4, "seed": sd})
    b.samples.append({"n": 4, "spectrum": [-4.0, 3.2, -2.88, 2.56], "check": "A v = lambda v with lambda = -4"})
    b.done()
    bs = rep.add_bounded(Bounded("scaled_spectra", "n = 3, 4; the same spectra multiplied by 1e-6, 1e4, 1e8; both signs; default and tight tolerance",
                                 "the stopping tests are scale free: estimate and eigenpair residual are accurate RELATIVE to |lambda_max| at every scale"))
    for n in (3, 4):
        for sign in (1.0, -1.0):
            base = [sign * 4.0] + [2.0 * ((-1) ** i) * (1 - 0.1 * i) for i in range(n - 1)]
            A1 = hermitian_from_spectrum(rng, base)
            for scale in (1e-6, 1e4, 1e8):
                lam = [scale * x for x in base]
                A4 = A1 * scale
                for tol in (None, 1e-13):
                    bs.case(f"{P}.bounded.scaled_spectra", (n, sign, scale, tol), lambda A4=A4, lam=lam, tol=tol: check_pi(A4, lam, seed, tol=tol),
                            f"power iteration n={n} dominant {sign * 4.0 * scale:g} tolerance {tol}", facts={"n": n, "scale": scale}, inputs={"A": A4, "spectrum": lam, "seed": seed})
    bs.done()
    b2 = rep.add_bounded(Bounded("arbitrary_input", "non-Hermitian Gaussian / integer / nilpotent / zero matrices n <= 5", "unit vector and estimate <= ||A||_2; complex-adjoint variant unit"))
    for n in range(1, nmax + 1):
        for kind in ("gauss", "int", "nilpotent", "zero"):
            A4 = rng.standard_normal((n, n, 4)) if kind == "gauss" else rng.integers(-3, 4, size=(n, n, 4)).astype(float)
            if kind == "nilpotent":
                A4 = np.zeros((n, n, 4))
                for i in range(n - 1):
                    A4[i, i + 1, 0] = 1.0
            if kind == "zero":
                A4 = np.zeros((n, n, 4))
            for budget in (0, 1, 2, 7, 3000):
                b2.case(f"{P}.bounded.arbitrary", (n, kind, budget), lambda A4=A4, budget=budget: check_pi(A4, None, seed, hermitian=False, budget=budget, tol=1e-10 if budget == 7 else 1e-13),
                        f"power iteration on a {n}x{n} {kind} matrix, budget {budget}", inputs={"A": A4, "budget": budget})
            if kind in ("gauss", "int", "nilpotent") and not (kind == "nilpotent" and n == 1):
                for opts in ({}, {"block_purify": False}, {"eigenvalue_format": "quaternion"}, {"block_purify": False, "budget": 3}, {"res_tol": None}, {"res_tol": None, "block_purify": False}):
                    b2.case(f"{P}.bounded.arbitrary_nh", (n, kind, "nh", tuple(sorted(opts.items()))), lambda A4=A4, opts=opts: check_nh(A4, seed, False, **dict(opts)),
                            f"complex-adjoint variant on a {n}x{n} {kind} matrix {opts}", inputs={"A": A4, "options": {k: str(v) for k, v in opts.items()}})
    b2.samples.append({"n": 3, "kind": "nilpotent"})
    b2.done()


def run(tier, seed):
    rep = Report(P, tier, seed, "exploration")
    rep.assumptions += [
        "kernels by contract (C01); create_test_matrix returns an arbitrary n x 1 quaternion vector (its randomness is irrelevant to the invariant)",
        "A5 cited: |v^H A v| <= ||A||_2 for unit v; convergence of the power method for a separated dominant eigenvalue - both only sampled",
        "complex-adjoint path: _power_iteration_complex returns an arbitrary (lam, v_c, history) - contract 'any value', so nothing is assumed about it; quaternion_to_complex_adjoint by contract (C02); quat_frobenius_norm is invariant under reshape (C15); that v_c is not the zero vector (so that q != 0) is only sampled",
    ]
    rep.trusted += ["qv engine", "z3 5.1", "library model"]
    deductive(rep, tier)
    bounded(rep, tier, seed)
    return rep


def replay(path):
    import json
    with open(path) as f:
        d = json.load(f)
    print(json.dumps({k: d[k] for k in ("property", "obligation", "text")}, indent=1))
    return run("quick", d.get("seed", 0)).finish()
