"""C14 - results depend only on configuration and arguments: no hidden state, no argument mutation.

Deductive part: modular frame analysis (qv/effects.py) over the real ASTs of every function of the
anchored files - an interprocedural, flow-insensitive over-approximation of the locations written
through.  Obligations per function:  frame.args (no write through a parameter), frame.self (no
attribute of self assigned outside __init__), frame.globals (no module global assigned), time (clock
values only flow to timing fields), rng (random draws come from the global generator or an explicitly
seeded local one).  The two documented in-place kernels carry a `modifies` clause and every caller is
shown to hand them fresh arrays (otherwise the caller's own frame obligation fails).
Bounded stand-in (exhaustive within bounds): for every solver class / configuration every call
sequence of length <= 2 (quick) or <= 3 (thorough) over a pool of four problems: call k on the reused
object equals a fresh object's result bit for bit, __dict__ unchanged, argument bytes unchanged; every
public function for argument mutation; both import styles in separate interpreters."""
from __future__ import annotations

import io
import itertools
import json
import os
import subprocess
import sys
import time

import numpy as np

from .. import smt
from ..core import Bounded, Obligation, Report
from ..effects import Analyzer
from ..extract import repo_root

P = "C14"
ANCHOR = ["quatica/utils.py", "quatica/solver.py", "quatica/decomp/qsvd.py", "quatica/decomp/LU.py", "quatica/decomp/eigen.py",
          "quatica/decomp/tridiagonalize.py", "quatica/decomp/hessenberg.py", "quatica/decomp/schur.py"]
AUX = ["quatica/tensor.py", "quatica/data_gen.py", "quatica/qslst.py"]
# modifies clauses (everything else: empty)
MODIFIES = {
    "quatica/utils.py::Hess_QR_ggivens": {("param", "Hess")},
    "quatica/utils.py::UtriangleQsparse": {("param", "b0"), ("param", "b1"), ("param", "b2"), ("param", "b3")},
}


def deductive(rep: Report, tier):
    t0 = time.time()
    an = Analyzer(rep.repo, ANCHOR + AUX)
    summ = an.run()
    secs = time.time() - t0
    for q, s in summ.items():
        rel = q.split("::")[0]
        if rel not in ANCHOR and rel not in AUX:
            continue
        rep.function(q)
        fn = q.split("::")[1]
        allowed = set(MODIFIES.get(q, set()))
        if s.node.name == "__init__":
            allowed.add(("self",))
        bad_args = sorted(w for w in s.writes if w[0] == "param" and w not in allowed)
        bad_self = sorted(w for w in s.writes if w[0] == "self" and w not in allowed)
        bad_glob = sorted(w for w in s.writes if w[0] == "global")
        sites = lambda ws: [{"root": list(r), "line": l, "what": t} for r, l, t in s.write_sites if r in ws][:6]
        for clause, bad in (("frame.args", bad_args), ("frame.self", bad_self), ("frame.globals", bad_glob)):
            rep.add(Obligation(f"{P}.{fn}.{clause}", q, "all-shapes", smt.PROVED if not bad else smt.REFUTED, "effect-analysis", 0.0,
                               {"writes": [list(b) for b in bad], "sites": sites(set(bad))} if bad else None, replay=replay_state if clause == "frame.self" else replay_mutation,
                               kind="frame"))
        rep.add(Obligation(f"{P}.{fn}.time.only_timing_fields", q, "all-shapes", smt.PROVED if not s.time_leaks else smt.REFUTED, "effect-analysis", 0.0,
                           {"leaks": s.time_leaks[:5]} if s.time_leaks else None, kind="frame"))
        if s.rng and rel in ANCHOR:      # reproducibility from the global seed is claimed for the solvers / decompositions (the property's anchors);
            #                               the image utilities document an optional Generator argument with a fresh default
            ok = "local_unseeded" not in s.rng
            rep.add(Obligation(f"{P}.{fn}.rng.reproducible", q, "all-shapes", smt.PROVED if ok else smt.REFUTED, "effect-analysis", 0.0,
                               {"rng": sorted(s.rng)} if not ok else None, kind="frame"))
    # the in-place kernels really are declared (vacuity guard of the modifies clauses)
    for q, mod in MODIFIES.items():
        s = summ.get(q)
        rep.canary(f"{P}.canary.modifies_clause_needed.{q.split('::')[1]}", s is not None and bool(s.writes & mod))
    # static import resolution: the flat fallback of every package-relative import reaches the same file
    rep.add(import_obligation(rep))
    rep.add(relative_import_obligation(rep))
    rep.solver_secs += secs
    rep.notes.append(f"frame analysis: {len(summ)} functions analysed in {secs:.2f}s (fixpoint over call summaries)")


def import_obligation(rep):
    import ast
    bad = []
    n = 0
    for rel in ANCHOR + ["quatica/__init__.py", "quatica/decomp/__init__.py"]:
        m = rep.repo.module(rel)
        for node in ast.walk(m.tree):
            if isinstance(node, ast.ImportFrom) and node.module and node.module.split(".")[0] in ("utils", "decomp", "data_gen", "solver", "tridiagonalize", "quatica"):
                n += 1
                name = node.module
                cands = []
                parts = name.split(".")
                if parts[0] == "quatica":
                    parts = parts[1:]
                for base in ("quatica", "quatica/decomp"):
                    for cand in (os.path.join(base, *parts) + ".py", os.path.join(base, *parts, "__init__.py")):
                        if rep.repo.exists(cand):
                            cands.append(os.path.normpath(cand))
                if len(set(cands)) != 1:
                    bad.append({"file": rel, "line": node.lineno, "module": name, "candidates": sorted(set(cands))})
    return Obligation(f"{P}.imports.flat_names_unambiguous", "quatica/*", "all-shapes", smt.PROVED if not bad and n else smt.REFUTED, "static-resolution", 0.0,
                      {"ambiguous": bad[:5], "imports": n} if bad or not n else None, kind="frame")


def relative_import_obligation(rep):
    """Every package-relative import in a top-level module of quatica/ (which the flat style imports without a parent package) sits in a try block whose handler imports the same names
    through an absolute / flat module path: otherwise the flat-module import style silently loses that dependency."""
    import ast
    bad = []
    n = 0
    for rel in ANCHOR:
        if os.path.dirname(rel) != "quatica":
            continue        # modules of the sub-package decomp/ are imported as part of a package in both styles: their relative imports work in both
        m = rep.repo.module(rel)
        guarded = set()
        for node in ast.walk(m.tree):
            if isinstance(node, ast.Try):
                fallback_names = set()
                for h in node.handlers:
                    for x in ast.walk(h):
                        if isinstance(x, ast.ImportFrom) and x.level == 0:
                            fallback_names |= {a.asname or a.name for a in x.names}
                        elif isinstance(x, ast.Import):
                            fallback_names |= {(a.asname or a.name).split(".")[0] for a in x.names}
                for x in node.body:
                    for y in ast.walk(x):
                        if isinstance(y, ast.ImportFrom) and y.level > 0 and {a.asname or a.name for a in y.names} <= fallback_names:
                            guarded.add(id(y))
        for node in ast.walk(m.tree):
            if isinstance(node, ast.ImportFrom) and node.level > 0:
                n += 1
                if id(node) not in guarded:
                    bad.append({"file": rel, "line": node.lineno, "import": ast.unparse(node)})
    return Obligation(f"{P}.imports.relative_imports_have_a_flat_fallback", "quatica/*", "all-shapes", smt.PROVED if not bad else smt.REFUTED, "static-resolution", 0.0,
                      {"unguarded": bad[:5], "relative_imports": n} if bad else None, kind="frame")


# ---------------------------------------------------------------------------------------------------
def _pool(rt):
    import quaternion
    rng = np.random.default_rng(123)
    out = []
    for (m, n, r) in ((2, 2, 2), (6, 6, 6), (5, 3, 3), (4, 4, 2)):
        A4 = rt.qmm(rng.standard_normal((m, r, 4)), rng.standard_normal((r, n, 4)))
        if m == n and r == n:
            A4 = A4 + 3 * rt.eye4(n)
        out.append((A4, rng.standard_normal((m, 1, 4))))
    return out


def _configs(rt):
    S = rt.real().solver
    return [
        ("ns", lambda: S.NewtonSchulzPseudoinverse(max_iter=6), "compute", "any"),
        ("ns_cov", lambda: S.NewtonSchulzPseudoinverse(max_iter=6, compute_residuals=False, gamma=1.0), "compute", "any"),
        ("hon", lambda: S.HigherOrderNewtonSchulzPseudoinverse(max_iter=4), "compute", "any"),
        ("qgmres", lambda: S.QGMRESSolver(tol=1e-10), "solve", "square"),
        ("qgmres_lu", lambda: S.QGMRESSolver(tol=1e-10, preconditioner="left_lu"), "solve", "square"),
        ("rsp_qr", lambda: S.RandomizedSketchProjectPseudoinverse(block_size=4, max_iter=6, tol=1e-12, test_sketch_size=2), "compute", "any"),
        ("rsp_spd", lambda: S.RandomizedSketchProjectPseudoinverse(block_size=3, max_iter=4, tol=1e-12, test_sketch_size=2, column_solver="spd"), "compute", "any"),
        ("hybrid", lambda: S.HybridRSPNewtonSchulz(r=4, p=2, T=2, max_iter=4, tol=1e-14), "compute", "tall"),
        ("cgne", lambda: S.CGNEQSolver(max_iter=6, tol=1e-14), "compute", "tall"),
        ("cgne_prec", lambda: S.CGNEQSolver(max_iter=4, tol=1e-14, preconditioner_rank=2), "compute", "tall"),
    ]


def _result_bytes(rt, res):
    """Canonical bytes of a returned value, timing fields excluded."""
    import hashlib
    h = hashlib.sha1()

    def feed(x, key=""):
        if isinstance(x, dict):
            for k in sorted(x):
                if "time" in str(k).lower():
                    continue
                h.update(str(k).encode())
                feed(x[k], str(k))
        elif isinstance(x, (list, tuple)):
            h.update(b"[")
            for y in x:
                feed(y, key)
        elif isinstance(x, np.ndarray) or type(x).__name__ == "SparseQuaternionMatrix":
            h.update(rt.ahash(x).encode())
        else:
            h.update(repr(x).encode())
    feed(res)
    return h.hexdigest()


def _strip_hon(res):
    """Drop per-iteration wall-clock lists (third value of the third-order NS solver)."""
    if isinstance(res, tuple) and len(res) == 3 and isinstance(res[2], list) and res[2] and all(isinstance(x, float) for x in res[2]) and isinstance(res[1], dict):
        return res[:2]
    return res


def _call(rt, obj, method, prob):
    A4, b4 = prob
    A = rt.q_from4(A4)
    args = [A] + ([rt.q_from4(b4)] if method == "solve" else [])
    before = [rt.ahash(a) for a in args]
    np.random.seed(12345)
    import contextlib
    with contextlib.redirect_stdout(io.StringIO()):
        res = getattr(obj, method)(*args)
    after = [rt.ahash(a) for a in args]
    # HON returns per-iteration timings as its third value: timing only
    if type(obj).__name__ == "HigherOrderNewtonSchulzPseudoinverse":
        res = res[:2]
    return _result_bytes(rt, res), before == after


def _applicable(kind, prob):
    m, n = prob[0].shape[:2]
    return (kind == "any") or (kind == "square" and m == n) or (kind == "tall" and m >= n)


def replay_state(seed):
    from .. import runtime as rt
    pool = _pool(rt)
    for name, mk, method, kind in _configs(rt):
        probs = [p for p in pool if _applicable(kind, p)]
        fresh = {}
        for i, p in enumerate(probs):
            fresh[i] = _call(rt, mk(), method, p)[0]
        for i, j in itertools.product(range(len(probs)), repeat=2):
            o = mk()
            _call(rt, o, method, probs[i])
            got = _call(rt, o, method, probs[j])[0]
            if got != fresh[j]:
                return {"failed": True, "config": name, "history": [list(probs[i][0].shape[:2]), list(probs[j][0].shape[:2])],
                        "what": "second call on a reused solver differs from a fresh solver"}
    return {"failed": False}


def _mutation_calls(rt):
    import quaternion
    r = rt.real()
    U, S, T = r.utils, r.solver, r.tensor
    rq = lambda m, n, s=0: quaternion.as_quat_array(np.random.default_rng(s).standard_normal((m, n, 4)))
    A = rq(4, 4, 1)
    Ah = 0.5 * (A + U.quat_hermitian(A))
    At, Aw, b = rq(5, 3, 2), rq(3, 5, 3), rq(4, 1, 4)
    sp = rt.sparse_from4(rt.q_to4(A))
    calls = {
        "quat_matmat": (U.quat_matmat, [A, A]), "quat_matmat[sparse,dense]": (U.quat_matmat, [sp, A]), "quat_matmat[dense,sparse]": (U.quat_matmat, [A, sp]),
        "quat_frobenius_norm": (U.quat_frobenius_norm, [A]), "quat_hermitian": (U.quat_hermitian, [A]), "quat_hermitian[sparse]": (U.quat_hermitian, [sp]),
        "induced_matrix_norm_1": (U.induced_matrix_norm_1, [A]), "induced_matrix_norm_inf": (U.induced_matrix_norm_inf, [A]), "spectral_norm_2": (U.spectral_norm_2, [A]),
        "real_expand": (U.real_expand, [A]), "real_contract": (lambda R: U.real_contract(R, 4, 4), [U.real_expand(A)]), "rank": (U.rank, [At]),
        "quat_null_space": (U.quat_null_space, [Aw]), "det[Dieudonne]": (lambda X: U.det(X, "Dieudonne"), [A]), "det[Moore]": (lambda X: U.det(X, "Moore"), [Ah]),
        "ishermitian": (U.ishermitian, [Ah]), "power_iteration": (lambda X: U.power_iteration(X, return_eigenvalue=True), [Ah]),
        "power_iteration_nonhermitian": (U.power_iteration_nonhermitian, [A]), "quaternion_to_complex_adjoint": (U.quaternion_to_complex_adjoint, [A]),
        "timesQsparse": (U.timesQsparse, [rt.q_to4(A)[..., c].copy() for c in range(4)] * 2), "normQsparse": (U.normQsparse, [rt.q_to4(A)[..., c].copy() for c in range(4)]),
        "A2A0123": (U.A2A0123, [np.random.default_rng(0).standard_normal((3, 8))]), "Realp": (U.Realp, [rt.q_to4(A)[..., c].copy() for c in range(4)]),
        "ggivens": (U.ggivens, [np.array([1.0, 2, 3, 4]), np.array([0.5, -1, 2, 0])]),
        "qr_qua": (r.qsvd.qr_qua, [At]), "classical_qsvd_full": (r.qsvd.classical_qsvd_full, [At]), "classical_qsvd": (lambda X: r.qsvd.classical_qsvd(X, 2), [At]),
        "rand_qsvd": (lambda X: r.qsvd.rand_qsvd(X, 2, oversample=2), [At]), "pass_eff_qsvd": (lambda X: r.qsvd.pass_eff_qsvd(X, 2, oversample=2), [At]),
        "quaternion_lu": (r.LU.quaternion_lu, [At]), "quaternion_lu[P]": (lambda X: r.LU.quaternion_lu(X, return_p=True), [A]), "quaternion_triu": (r.LU.quaternion_triu, [A]),
        "quaternion_tril": (r.LU.quaternion_tril, [A]), "tridiagonalize": (r.tridiagonalize.tridiagonalize, [Ah]),
        "quaternion_eigendecomposition": (r.eigen.quaternion_eigendecomposition, [Ah]), "hessenbergize": (r.hessenberg.hessenbergize, [A]),
        "quaternion_schur": (lambda X: r.schur.quaternion_schur(X, max_iter=30), [A]), "quaternion_schur_pure": (lambda X: r.schur.quaternion_schur_pure(X, max_iter=10), [A]),
        "quaternion_schur_pure_implicit": (lambda X: r.schur.quaternion_schur_pure_implicit(X, max_iter=10), [A]),
        "quaternion_schur_unified[aed]": (lambda X: r.schur.quaternion_schur_unified(X, variant="aed", max_iter=10), [A]),
        "quaternion_schur_experimental": (lambda X: r.schur.quaternion_schur_experimental(X, max_iter=10), [A]),
        "NewtonSchulz.compute": (S.NewtonSchulzPseudoinverse(max_iter=4).compute, [At]), "NewtonSchulz.compute[sparse]": (S.NewtonSchulzPseudoinverse(max_iter=3).compute, [sp]),
        "HigherOrderNS.compute": (S.HigherOrderNewtonSchulzPseudoinverse(max_iter=3).compute, [At]),
        "QGMRES.solve": (S.QGMRESSolver().solve, [A, b]), "QGMRES.solve[left_lu]": (S.QGMRESSolver(preconditioner="left_lu").solve, [A, b]),
        "QGMRES.solve[sparse]": (S.QGMRESSolver().solve, [sp, b]),
        "RSP.compute": (S.RandomizedSketchProjectPseudoinverse(max_iter=4, block_size=2, seed=0).compute, [At]),
        "RSP.compute[row]": (S.RandomizedSketchProjectPseudoinverse(max_iter=4, block_size=2, seed=0).compute, [Aw]),
        "Hybrid.compute": (S.HybridRSPNewtonSchulz(max_iter=4, r=2, seed=0).compute, [At]), "CGNE.compute": (S.CGNEQSolver(max_iter=4).compute, [At]),
        "tensor_unfold": (lambda X: T.tensor_unfold(X, 1), [rq(2, 15).reshape(2, 3, 5)]),
        "_solve_lower_triangular_quat": (S._solve_lower_triangular_quat, [r.LU.quaternion_tril(A), rq(4, 2, 9)]),
        "_solve_upper_triangular_quat": (S._solve_upper_triangular_quat, [r.LU.quaternion_triu(A), rq(4, 2, 9)]),
    }
    return calls


def replay_mutation(seed):
    from .. import runtime as rt
    import contextlib

    def relayout(a, lay):
        if isinstance(a, np.ndarray) and a.dtype == np.quaternion and a.ndim == 2 and lay != "C":
            return rt.q_from4(rt.q_to4(a), lay)
        return a
    for nm, (f, args0) in _mutation_calls(rt).items():
        for lay in ("C", "F", "S"):
            args = [relayout(a, lay) for a in args0]
            h0 = [rt.ahash(a) for a in args]
            try:
                with contextlib.redirect_stdout(io.StringIO()):
                    np.random.seed(4242)
                    r1 = f(*args)
                    np.random.seed(4242)
                    r2 = f(*args)
            except Exception as e:
                return {"failed": True, "call": nm, "layout": lay, "what": f"raised {type(e).__name__}: {e}"}
            if [rt.ahash(a) for a in args] != h0:
                return {"failed": True, "call": nm, "layout": lay, "what": "argument bytes changed"}
            if _result_bytes(rt, _strip_hon(r1)) != _result_bytes(rt, _strip_hon(r2)):
                return {"failed": True, "call": nm, "layout": lay, "what": "repeated call differs"}
    return {"failed": False}


def bounded(rep: Report, tier, seed):
    from .. import runtime as rt
    pool = _pool(rt)
    maxlen = 2 if tier == "quick" else 3
    b = rep.add_bounded(Bounded("call_histories", f"10 solver configurations x every call sequence of length <= {maxlen} over a pool of 4 problems (2x2, 6x6, 5x3 full rank, 4x4 rank 2)",
                                "call k on the reused object must equal a fresh object's result bit for bit (global seed reset before each call); __dict__ and argument bytes unchanged; exhaustive over the sequences"))
    for name, mk, method, kind in _configs(rt):
        probs = [p for p in pool if _applicable(kind, p)]
        fresh = {}
        for i, p in enumerate(probs):
            fresh[i] = _call(rt, mk(), method, p)
        for L in range(1, maxlen + 1):
            for seq in itertools.product(range(len(probs)), repeat=L):
                def f(seq=seq):
                    o = mk()
                    st0 = rt.state_snapshot(o)
                    for k, i in enumerate(seq):
                        got, unchanged = _call(rt, o, method, probs[i])
                        if not unchanged:
                            return {"what": "argument bytes changed by the call", "position": k}
                        if got != fresh[i][0]:
                            return {"what": f"call {k + 1} of the history differs from a fresh solver", "history": [list(probs[j][0].shape[:2]) for j in seq]}
                        if rt.state_snapshot(o) != st0:
                            return {"what": "solver __dict__ changed", "before": repr(st0), "after": repr(rt.state_snapshot(o))}
                    return None
                b.case(f"{P}.bounded.history.{name}", (name, seq), f, f"history {seq} on {name}", nontrivial=len(seq) > 1 or True)
    b.exhaustive = True
    b.samples.append({"config": "qgmres", "history": ["2x2", "6x6"], "check": "second result == fresh solver's result, byte for byte"})
    b.done()
    b2 = rep.add_bounded(Bounded("argument_mutation_and_repeatability", "one representative call per public entry point (dense, sparse and preconditioned variants), each with C-contiguous, Fortran-ordered and strided argument layouts, each called twice",
                                 "sha1 of every argument before/after the call; the second call (global seed reset) must return the same bytes as the first"))
    import contextlib
    import quaternion as _q

    def relayout(a, lay):
        if isinstance(a, np.ndarray) and a.dtype == np.quaternion and a.ndim == 2 and lay != "C":
            return rt.q_from4(rt.q_to4(a), lay)
        if isinstance(a, np.ndarray) and a.dtype == float and a.ndim == 2 and lay == "F":
            return np.asfortranarray(a)
        return a
    for nm, (fn, args0) in _mutation_calls(rt).items():
        for lay in ("C", "F", "S"):
            args = [relayout(a, lay) for a in args0]
            if lay != "C" and all(x is y for x, y in zip(args, args0)):
                continue

            def f(fn=fn, args=args):
                h0 = [rt.ahash(a) for a in args]
                np.random.seed(4242)
                r1 = fn(*args)
                if [rt.ahash(a) for a in args] != h0:
                    return {"what": "argument bytes changed"}
                np.random.seed(4242)
                r2 = fn(*args)
                if _result_bytes(rt, _strip_hon(r1)) != _result_bytes(rt, _strip_hon(r2)):
                    return {"what": "repeating the call (same arguments, same global seed) gave a different result"}
                return None
            b2.case(f"{P}.bounded.mutation.{nm}", (nm, lay), f, f"argument mutation / repeatability of {nm} with {lay}-layout arguments")
    b2.samples.append({"call": "QGMRES.solve[left_lu]", "args": "A 4x4, b 4x1"})
    b2.done()
    b3 = rep.add_bounded(Bounded("import_styles", "package import vs flat-module import in two fresh interpreters", "same seeded workload, results compared byte for byte; repeated call repeats the result"))
    b3.case(f"{P}.bounded.import_styles", ("imports",), lambda: _import_styles(), "package vs flat import")
    b3.distinct.add(("imports", 2))
    b3.done()


_WORKLOAD = r'''
import sys, hashlib, io, contextlib
import numpy as np, quaternion
STYLE, ROOT = sys.argv[1], sys.argv[2]
if STYLE == "package":
    sys.path.insert(0, ROOT)
    import quatica.utils as U, quatica.solver as S
    from quatica.decomp import qsvd as QS, LU as LUm, hessenberg as HB
else:
    sys.path.insert(0, ROOT + "/quatica")
    import utils as U, solver as S
    from decomp import qsvd as QS, LU as LUm, hessenberg as HB
def rq(m, n, s): return quaternion.as_quat_array(np.random.default_rng(s).standard_normal((m, n, 4)))
h = hashlib.sha1()
def feed(x):
    if isinstance(x, (tuple, list)):
        for y in x: feed(y)
    elif isinstance(x, dict):
        for k in sorted(x):
            if "time" not in k: feed(x[k])
    elif isinstance(x, np.ndarray):
        h.update(np.ascontiguousarray(quaternion.as_float_array(x) if x.dtype == np.quaternion else x).tobytes())
    else:
        h.update(repr(x).encode())
A, b, At = rq(4, 4, 1), rq(4, 1, 2), rq(5, 3, 3)
with contextlib.redirect_stdout(io.StringIO()):
    for rep in range(2):
        np.random.seed(7)
        feed(U.quat_matmat(A, A)); feed(U.rank(At)); feed(QS.qr_qua(At)); feed(QS.classical_qsvd_full(At)); feed(QS.rand_qsvd(At, 2, oversample=1))
        feed(LUm.quaternion_lu(A, return_p=True)); feed(HB.hessenbergize(A)); feed(U.power_iteration(0.5 * (A + U.quat_hermitian(A)), return_eigenvalue=True))
        feed(S.QGMRESSolver(tol=1e-10).solve(A, b)[0]); feed(S.NewtonSchulzPseudoinverse(max_iter=5).compute(At)[:2])
        feed(S.RandomizedSketchProjectPseudoinverse(block_size=2, max_iter=4).compute(At)[0])
        x_lu, info_lu = S.QGMRESSolver(tol=1e-10, preconditioner="left_lu").solve(A, b)
        feed(x_lu); feed(info_lu["iterations"])
        feed(S.RandomizedSketchProjectPseudoinverse(block_size=2, max_iter=3, column_solver="spd").compute(At)[0])
        feed(S.HybridRSPNewtonSchulz(r=2, p=2, T=2, max_iter=4).compute(At)[0]); feed(S.CGNEQSolver(max_iter=4).compute(At)[0])
        feed(S.CGNEQSolver(max_iter=3, preconditioner_rank=2).compute(At)[0]); feed(S.HigherOrderNewtonSchulzPseudoinverse(max_iter=3).compute(At)[0])
        print("REP", rep, h.hexdigest(), file=sys.stderr)
'''


def _import_styles():
    root = repo_root()
    outs = {}
    for style in ("package", "flat"):
        p = subprocess.run([sys.executable, "-c", _WORKLOAD, style, root], capture_output=True, text=True, timeout=300)
        lines = [l for l in p.stderr.splitlines() if l.startswith("REP")]
        if p.returncode != 0 or len(lines) != 2:
            return {"what": f"workload failed under the {style} import style", "stderr": p.stderr[-600:]}
        outs[style] = [l.split()[2] for l in lines]
    if outs["package"] != outs["flat"]:
        return {"what": "package and flat imports give different results", "digests": outs}
    return None


def run(tier, seed):
    rep = Report(P, tier, seed, "proof")
    rep.assumptions += [
        "library axioms of the frame analysis (which numpy/scipy/quaternion operations return views, which return fresh arrays, which write in place) as listed in qv/effects.py; library functions are assumed not to write their arguments otherwise",
        "method calls are resolved by name over all repository classes (over-approximation); aliasing through object attributes is merged with the object",
        "'bit for bit equal to a fresh object' and the import-style equivalence are decided by the bounded stand-in (exhaustive over the stated histories)",
    ]
    rep.trusted += ["qv/effects.py (frame analysis)", "CPython ast"]
    deductive(rep, tier)
    bounded(rep, tier, seed)
    return rep


def replay(path):
    with open(path) as f:
        d = json.load(f)
    print(json.dumps({k: d[k] for k in ("property", "obligation", "text")}, indent=1))
    return run("quick", d.get("seed", 0)).finish()
