"""Access to the real code (imported from $QV_REPO, default /repo) for bounded stand-ins and replay,
plus small independent oracles.  Nothing here is counted as proof."""
from __future__ import annotations

import hashlib
import importlib
import os
import sys
from fractions import Fraction

import numpy as np

from .extract import repo_root

_NS = None


class NS:
    pass


def real():
    """Import the repository modules from the current tree (package style)."""
    global _NS
    if _NS is not None:
        return _NS
    root = repo_root()
    for p in (os.path.join(root, "quatica"), root):
        if p not in sys.path:
            sys.path.insert(0, p)
    import quaternion  # noqa
    ns = NS()
    ns.quaternion = quaternion
    ns.utils = importlib.import_module("quatica.utils")
    ns.solver = importlib.import_module("quatica.solver")
    ns.tensor = importlib.import_module("quatica.tensor")
    ns.qslst = importlib.import_module("quatica.qslst")
    ns.data_gen = importlib.import_module("quatica.data_gen")
    ns.decomp = importlib.import_module("quatica.decomp")
    for n in ("LU", "qsvd", "eigen", "tridiagonalize", "hessenberg", "schur"):
        setattr(ns, n, importlib.import_module(f"quatica.decomp.{n}"))
    f = getattr(ns.utils, "__file__", "")
    assert os.path.realpath(f).startswith(os.path.realpath(root)), f"imported {f}, expected under {root}"
    _NS = ns
    return ns


def app_script():
    """applications/image_deblurring/script_image_deblurring.py as a module (needs matplotlib etc.)."""
    root = repo_root()
    d = os.path.join(root, "applications", "image_deblurring")
    if d not in sys.path:
        sys.path.insert(0, d)
    return importlib.import_module("script_image_deblurring")


# -- conversions ----------------------------------------------------------------------------------
def q_from4(a4, layout="C"):
    """Quaternion array with the given logical content; layout 'F' = Fortran-ordered view (a transposed
    buffer), 'S' = strided view into a larger buffer, 'C' = contiguous."""
    import quaternion
    a4 = np.asarray(a4, dtype=float)
    if layout == "F" and a4.ndim == 3:
        base = quaternion.as_quat_array(np.ascontiguousarray(np.transpose(a4, (1, 0, 2))))
        return base.T
    if layout == "S" and a4.ndim == 3:
        m, n = a4.shape[:2]
        big = np.zeros((2 * m, 2 * n, 4))
        big[::2, ::2] = a4
        return quaternion.as_quat_array(big)[::2, ::2]
    return quaternion.as_quat_array(np.ascontiguousarray(a4))


def q_to4(q):
    import quaternion
    return quaternion.as_float_array(q).copy()


def sparse_from4(a4):
    from scipy import sparse
    r = real()
    a4 = np.asarray(a4, dtype=float)
    return r.utils.SparseQuaternionMatrix(sparse.csr_matrix(a4[..., 0]), sparse.csr_matrix(a4[..., 1]),
                                          sparse.csr_matrix(a4[..., 2]), sparse.csr_matrix(a4[..., 3]), a4.shape[:2])


def sparse_to4(S):
    return np.stack([S.real.toarray(), S.i.toarray(), S.j.toarray(), S.k.toarray()], axis=-1)


def any_to4(X):
    r = real()
    if isinstance(X, r.utils.SparseQuaternionMatrix):
        return sparse_to4(X)
    return q_to4(X)


def rand_q4(rng, m, n, kind="generic"):
    if kind == "int":
        return rng.integers(-3, 4, size=(m, n, 4)).astype(float)
    return rng.standard_normal((m, n, 4))


def ahash(x):
    import quaternion
    if isinstance(x, np.ndarray):
        if x.dtype == np.quaternion:
            x = quaternion.as_float_array(x)
        return hashlib.sha1(np.ascontiguousarray(x).tobytes() + str(x.shape).encode()).hexdigest()[:12]
    r = real()
    if isinstance(x, r.utils.SparseQuaternionMatrix):
        return hashlib.sha1(sparse_to4(x).tobytes()).hexdigest()[:12]
    return hashlib.sha1(repr(x).encode()).hexdigest()[:12]


# -- independent helpers (definitions, not library calls of the code under test) --------------------
def qmm(A4, B4):
    from .spec import ham_np
    return ham_np(A4, B4)


def qH(A4):
    from .spec import herm_np
    return herm_np(A4)


def fro(A4):
    return float(np.sqrt(np.sum(np.asarray(A4, dtype=float) ** 2)))


def eye4(n):
    E = np.zeros((n, n, 4))
    for i in range(n):
        E[i, i, 0] = 1.0
    return E


def complex_adjoint(A4):
    """chi(A) = [[C, D], [-conj D, conj C]],  A = C + D j,  C = w + i x, D = y + i z  (independent definition)."""
    C = A4[..., 0] + 1j * A4[..., 1]
    D = A4[..., 2] + 1j * A4[..., 3]
    return np.block([[C, D], [-np.conj(D), np.conj(C)]])


def gram_schmidt_unitary(rng, n):
    """Random n x n quaternion unitary by (twice-iterated) Gram-Schmidt in the harness (independent of the repo)."""
    X = rng.standard_normal((n, n, 4))
    Q = np.zeros_like(X)
    for j in range(n):
        v = X[:, j:j + 1, :]
        for _ in range(2):
            for i in range(j):
                qi = Q[:, i:i + 1, :]
                c = qmm(qH(qi), v)          # 1x1
                v = v - qmm(qi, c)
        v = v / fro(v)
        Q[:, j:j + 1, :] = v
    return Q


def from_svd(rng, m, n, svals):
    """A = U diag(s) V^H with random unitary U (m x m), V (n x n)."""
    U = gram_schmidt_unitary(rng, m)
    V = gram_schmidt_unitary(rng, n)
    S = np.zeros((m, n, 4))
    for i, s in enumerate(svals):
        S[i, i, 0] = s
    return qmm(qmm(U, S), qH(V)), U, V


def singular_values(A4):
    """True quaternion singular values through the complex adjoint (each appears twice there)."""
    s = np.linalg.svd(complex_adjoint_rect(A4), compute_uv=False)
    return s[::2]


def complex_adjoint_rect(A4):
    C = A4[..., 0] + 1j * A4[..., 1]
    D = A4[..., 2] + 1j * A4[..., 3]
    return np.block([[C, D], [-np.conj(D), np.conj(C)]])


def pinv4(A4):
    """Moore-Penrose inverse through the complex adjoint (independent oracle)."""
    m, n = A4.shape[:2]
    P = np.linalg.pinv(complex_adjoint_rect(A4))
    C = P[:n, :m]
    D = P[:n, m:]
    return np.stack([C.real, C.imag, D.real, D.imag], axis=-1)


def state_snapshot(obj, depth=0):
    """Structural snapshot of an object's state (for before/after comparisons): primitives as they are,
    arrays by content hash, nested objects by (class name, snapshot of their __dict__)."""
    if depth > 5:
        return "..."
    if obj is None or isinstance(obj, (bool, int, float, str)):
        return obj
    if isinstance(obj, np.ndarray) or type(obj).__name__ == "SparseQuaternionMatrix":
        return ("array", ahash(obj))
    if isinstance(obj, (list, tuple)):
        return [state_snapshot(x, depth + 1) for x in obj]
    if isinstance(obj, dict):
        return {str(k): state_snapshot(v, depth + 1) for k, v in obj.items()}
    if hasattr(obj, "__dict__"):
        return (type(obj).__name__, {k: state_snapshot(v, depth + 1) for k, v in vars(obj).items()})
    return repr(type(obj))
