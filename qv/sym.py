"""Symbolic scalars (Int / Real / Bool over z3 terms), the execution context (path condition, decision
trail for path forking by re-execution, obligation log) and the exceptions used by the executor."""
from __future__ import annotations

import itertools
import time
from fractions import Fraction

import z3

from . import smt


class OutOfReach(Exception):
    """The function uses a construct the executor does not model: never a violation."""


class Raised(Exception):
    """A Python exception raised by the interpreted code (or by a library-model precondition)."""

    def __init__(self, exc_type, msg="", where=""):
        super().__init__(f"{exc_type}: {msg}")
        self.exc_type, self.msg, self.where = exc_type, msg, where


class PathAbort(Exception):
    """The current path was cut (infeasible assumption or unrecoverable failed requirement)."""


# ----------------------------------------------------------------------------------------------
_CTX = []


def cur() -> "Ctx":
    if not _CTX:
        raise RuntimeError("no active symbolic context")
    return _CTX[-1]


class Site:
    """A check emitted during execution (conformability, division, index range, explicit require)."""
    __slots__ = ("key", "kind", "text", "verdict", "path", "where")

    def __init__(self, key, kind, text, verdict, path, where):
        self.key, self.kind, self.text, self.verdict, self.path, self.where = key, kind, text, verdict, path, where


class Ctx:
    def __init__(self, name="", timeout_s=10.0):
        self.name = name
        self.base_hyps = []        # preconditions and axioms (persist across paths)
        self.path_hyps = []        # path condition of the current path
        self.trail = []            # decisions to replay
        self.decisions = []        # decisions taken on this path: [value, forced]
        self.sites = []            # Site records of all paths
        self.path_index = 0
        self.timeout_s = timeout_s
        self.uncertain = False     # a feasibility query came back unknown on this path
        self.where = ""            # current source location (set by the interpreter)
        self.fresh = itertools.count()
        self.solver_secs = 0.0
        self.queries = 0
        self.notes = []            # dropped constructs (print, f-strings, ...)
        self.effects = []          # write effects (location descriptors), for frames
        self.ghost = {}

    # -- context manager ---------------------------------------------------------------------
    def __enter__(self):
        _CTX.append(self)
        return self

    def __exit__(self, *a):
        _CTX.pop()

    # -- hypotheses --------------------------------------------------------------------------
    def hyps(self):
        return self.base_hyps + self.path_hyps

    def assume(self, cond, base=False):
        z = as_z3bool(cond)
        if z is True:
            return
        if z is False:
            raise PathAbort("assumed False")
        (self.base_hyps if base else self.path_hyps).append(z)

    def begin_path(self, trail):
        self.trail = list(trail)
        self.decisions = []
        self.path_hyps = []
        self.uncertain = False
        self.effects = []
        self.ghost = {}

    # -- queries -----------------------------------------------------------------------------
    def _sat(self, extra):
        t0 = time.time()
        ans, model, secs = smt.satisfiable(self.hyps() + list(extra), self.timeout_s)
        self.solver_secs += time.time() - t0
        self.queries += 1
        return ans, model

    def valid(self, cond):
        """Is cond implied by the current hypotheses?  (True | False | None=unknown)"""
        z = as_z3bool(cond)
        if z is True or z is False:
            return z
        ans, _ = self._sat([z3.Not(z)])
        return True if ans == "unsat" else (False if ans == "sat" else None)

    def decide(self, cond) -> bool:
        z = as_z3bool(cond)
        if z is True or z is False:
            return z
        zs = z3.simplify(z)
        if z3.is_true(zs):
            return True
        if z3.is_false(zs):
            return False
        i = len(self.decisions)
        if i < len(self.trail):
            val = self.trail[i]
            self.decisions.append([val, False])
            self.path_hyps.append(z if val else z3.Not(z))
            return val
        can_t, _ = self._sat([z])
        can_f, _ = self._sat([z3.Not(z)])
        if can_t == "unknown" or can_f == "unknown":
            self.uncertain = True
        if can_t == "unsat" and can_f == "unsat":
            raise PathAbort("path condition unsatisfiable")
        if can_f == "unsat":
            self.path_hyps.append(z)   # implied; no fork (kept for later queries' benefit)
            self.decisions.append([True, True])      # forced: recorded so that replayed trails stay aligned
            return True
        if can_t == "unsat":
            self.path_hyps.append(z3.Not(z))
            self.decisions.append([False, True])
            return False
        self.decisions.append([True, False])
        self.path_hyps.append(z)
        return True

    def require(self, kind, cond, text="", key=None, timeout_s=None):
        """Emit an obligation: cond must follow from the hypotheses on this path.
        Returns True if proved.  If not proved the condition is assumed afterwards so that one
        failure is reported once."""
        if getattr(self, "suppress", 0):
            return True
        z = as_z3bool(cond)
        key = key or f"{self.where}:{kind}"
        if z is True:
            return True
        elif z is False:
            v = smt.Verdict(smt.REFUTED, "syntactic", 0.0, model={})
        else:
            t0 = time.time()
            v = smt.prove(self.hyps(), z, timeout_s or self.timeout_s)
            self.solver_secs += time.time() - t0
            self.queries += 1
            if v.status == smt.REFUTED and self.uncertain:
                v = smt.Verdict(smt.UNDECIDED, v.backend, v.secs, detail="refuted on a path of unknown feasibility")
        if v.status == smt.REFUTED and getattr(self, "model_replay", None) is not None and z is not False:
            try:
                from .core import concrete_replay
                cr = concrete_replay(self, z)
                if cr is not None:
                    v.model = dict(v.model or {})
                    v.model["counterexample_replay"] = cr
            except Exception:
                pass
        self.sites.append(Site(key, kind, text or str(z)[:200], v, self.path_index, self.where))
        if v.status != smt.PROVED and z is not False and z is not True:
            self.path_hyps.append(z)
        return v.status == smt.PROVED

    def note(self, text):
        if text not in self.notes:
            self.notes.append(text)

    def fresh_name(self, base):
        return f"{base}!{next(self.fresh)}"


def explore(ctx: Ctx, run, max_paths=2000):
    """Run `run()` once per feasible path (decisions replayed from a trail).  Yields
    (path_index, outcome, value, path_hyps, effects, ghost) with outcome in {'return','raise','abort'}."""
    trail = []
    out = []
    n = 0
    while True:
        ctx.begin_path(trail)
        ctx.path_index = n
        try:
            val = run()
            outcome = "return"
        except Raised as e:
            val, outcome = e, "raise"
        except PathAbort as e:
            val, outcome = e, "abort"
        out.append((n, outcome, val, list(ctx.path_hyps), list(ctx.effects), dict(ctx.ghost), ctx.uncertain))
        n += 1
        if n >= max_paths:
            raise OutOfReach(f"more than {max_paths} paths")
        d = [list(x) for x in ctx.decisions]
        while d and (d[-1][1] or d[-1][0] is False):
            d.pop()
        if not d:
            break
        d[-1][0] = False
        trail = [x[0] for x in d]
    return out


# ----------------------------------------------------------------------------------------------
def _num(x):
    return isinstance(x, (int, Fraction)) and not isinstance(x, bool)


def _frac(x):
    if isinstance(x, float):
        if x != x or x in (float("inf"), float("-inf")):
            raise OutOfReach("non-finite float constant in arithmetic")
        return Fraction(repr(x))
    return x


def as_z3bool(c):
    if isinstance(c, SBool):
        return c.z
    if isinstance(c, (bool,)):
        return c
    if isinstance(c, z3.BoolRef):
        if z3.is_true(c):
            return True
        if z3.is_false(c):
            return False
        return c
    if c is None:
        return False
    if isinstance(c, (int, Fraction, float)):
        return bool(c)
    raise OutOfReach(f"truth value of {type(c).__name__}")


class SBool:
    __slots__ = ("z",)

    def __init__(self, z):
        self.z = z

    @staticmethod
    def mk(z):
        if isinstance(z, bool):
            return z
        zs = z3.simplify(z)
        if z3.is_true(zs):
            return True
        if z3.is_false(zs):
            return False
        return SBool(zs)

    def __bool__(self):
        return cur().decide(self.z)

    def __and__(self, o):
        o = as_z3bool(o)
        if o is True:
            return self
        if o is False:
            return False
        return SBool.mk(z3.And(self.z, o))

    __rand__ = __and__

    def __or__(self, o):
        o = as_z3bool(o)
        if o is True:
            return True
        if o is False:
            return self
        return SBool.mk(z3.Or(self.z, o))

    __ror__ = __or__

    def __invert__(self):
        return SBool.mk(z3.Not(self.z))

    def __eq__(self, o):
        o = as_z3bool(o)
        if o is True:
            return self
        if o is False:
            return ~self
        return SBool.mk(self.z == o)

    def __ne__(self, o):
        r = self.__eq__(o)
        return (not r) if isinstance(r, bool) else ~r

    # a boolean in arithmetic counts as 1 / 0 (Python / numpy semantics: True * 2.0 == 2.0)
    def as_number(self):
        return SReal.mk(z3.If(self.z, z3.RealVal(1), z3.RealVal(0)))

    def __mul__(self, o):
        return self.as_number() * (o.as_number() if isinstance(o, SBool) else o)

    def __rmul__(self, o):
        return o * self.as_number()

    def __add__(self, o):
        return self.as_number() + (o.as_number() if isinstance(o, SBool) else o)

    def __radd__(self, o):
        return o + self.as_number()

    def __sub__(self, o):
        return self.as_number() - (o.as_number() if isinstance(o, SBool) else o)

    def __rsub__(self, o):
        return o - self.as_number()

    __hash__ = None

    def __repr__(self):
        return f"SBool({self.z})"


def snot(c):
    if isinstance(c, SBool):
        return ~c
    return not as_z3bool(c)


def sand(*cs):
    r = True
    for c in cs:
        if isinstance(c, SBool):
            r = c & r
        else:
            c = as_z3bool(c)
            if c is False:
                return False
            if c is not True:
                r = SBool(c) & r
    return r


def sor(*cs):
    r = False
    for c in cs:
        if isinstance(c, SBool):
            r = c | r
        else:
            c = as_z3bool(c)
            if c is True:
                return True
            if c is not False:
                r = SBool(c) | r
    return r


def _concrete_int(zs):
    if z3.is_int_value(zs):
        return zs.as_long()
    return None


def _concrete_real(zs):
    if z3.is_rational_value(zs):
        return Fraction(zs.numerator_as_long(), zs.denominator_as_long())
    if z3.is_int_value(zs):
        return Fraction(zs.as_long())
    return None


class SInt:
    __slots__ = ("z",)
    __array_priority__ = 1000

    def __init__(self, z):
        self.z = z

    @staticmethod
    def mk(z):
        if isinstance(z, int):
            return z
        zs = z3.simplify(z)
        c = _concrete_int(zs)
        return c if c is not None else SInt(zs)

    @staticmethod
    def var(name):
        return SInt(z3.Int(name))

    @staticmethod
    def lift(x):
        if isinstance(x, SInt):
            return x.z
        if isinstance(x, bool):
            return z3.IntVal(int(x))
        if isinstance(x, int):
            return z3.IntVal(x)
        return None

    def _bin(self, o, f, rf=False):
        oz = SInt.lift(o)
        if oz is None:
            if isinstance(o, (SReal, Fraction, float)):
                a = z3.ToReal(self.z)
                b = SReal.lift(o)
                return SReal.mk(f(b, a) if rf else f(a, b))
            return NotImplemented
        return SInt.mk(f(oz, self.z) if rf else f(self.z, oz))

    def __add__(self, o):
        return self._bin(o, lambda a, b: a + b)

    def __radd__(self, o):
        return self._bin(o, lambda a, b: a + b, True)

    def __sub__(self, o):
        return self._bin(o, lambda a, b: a - b)

    def __rsub__(self, o):
        return self._bin(o, lambda a, b: a - b, True)

    def __mul__(self, o):
        return self._bin(o, lambda a, b: a * b)

    def __rmul__(self, o):
        return self._bin(o, lambda a, b: a * b, True)

    def __floordiv__(self, o):
        # Python floor division; equals z3's Euclidean div for positive divisors (required below)
        oz = SInt.lift(o)
        if oz is None:
            return NotImplemented
        cur().require("div.positive", SBool.mk(oz > 0), "floor division modelled for positive divisors")
        return SInt.mk(self.z / oz)

    def __rfloordiv__(self, o):
        oz = SInt.lift(o)
        cur().require("div.positive", SBool.mk(self.z > 0), "floor division modelled for positive divisors")
        return SInt.mk(oz / self.z)

    def __mod__(self, o):
        oz = SInt.lift(o)
        if oz is None:
            return NotImplemented
        cur().require("mod.positive", SBool.mk(oz > 0), "modulo modelled for positive divisors")
        return SInt.mk(self.z % oz)

    def __rmod__(self, o):
        oz = SInt.lift(o)
        cur().require("mod.positive", SBool.mk(self.z > 0), "modulo modelled for positive divisors")
        return SInt.mk(oz % self.z)

    def __truediv__(self, o):
        return SReal(z3.ToReal(self.z)) / o

    def __rtruediv__(self, o):
        return o / SReal(z3.ToReal(self.z)) if isinstance(o, SReal) else SReal.lift_val(o) / SReal(z3.ToReal(self.z))

    def __neg__(self):
        return SInt.mk(-self.z)

    def __pos__(self):
        return self

    def __abs__(self):
        return SInt.mk(z3.If(self.z >= 0, self.z, -self.z))

    def _cmp(self, o, f):
        oz = SInt.lift(o)
        if oz is None:
            if isinstance(o, (SReal, Fraction, float)):
                return f(SReal(z3.ToReal(self.z)).z, SReal.lift(o))
            return NotImplemented
        return f(self.z, oz)

    def __lt__(self, o):
        return SBool.mk(self._cmp(o, lambda a, b: a < b))

    def __le__(self, o):
        return SBool.mk(self._cmp(o, lambda a, b: a <= b))

    def __gt__(self, o):
        return SBool.mk(self._cmp(o, lambda a, b: a > b))

    def __ge__(self, o):
        return SBool.mk(self._cmp(o, lambda a, b: a >= b))

    def __eq__(self, o):
        if o is None or isinstance(o, str):
            return False
        r = self._cmp(o, lambda a, b: a == b)
        return False if r is NotImplemented else SBool.mk(r)

    def __ne__(self, o):
        if o is None or isinstance(o, str):
            return True
        r = self._cmp(o, lambda a, b: a != b)
        return True if r is NotImplemented else SBool.mk(r)

    def __hash__(self):
        return hash(("SInt", self.z.hash()))

    def __index__(self):
        raise OutOfReach("symbolic integer used as a concrete index")

    def __repr__(self):
        return f"SInt({self.z})"


class SReal:
    """Python/NumPy float modelled as a mathematical real (assumption A1)."""
    __slots__ = ("z",)
    np_float64 = False
    __array_priority__ = 1000

    def __init__(self, z):
        self.z = z

    @staticmethod
    def mk(z):
        if isinstance(z, (int, Fraction)) and not isinstance(z, bool):
            return Fraction(z)
        zs = z3.simplify(z)
        c = _concrete_real(zs)
        return c if c is not None else SReal(zs)

    @staticmethod
    def var(name):
        return SReal(z3.Real(name))

    @staticmethod
    def lift(x):
        if isinstance(x, SReal):
            return x.z
        if isinstance(x, SInt):
            return z3.ToReal(x.z)
        if isinstance(x, bool):
            return z3.RealVal(int(x))
        if isinstance(x, (int, Fraction, float)):
            return smt.to_real(_frac(x))
        return None

    @staticmethod
    def lift_val(x):
        z = SReal.lift(x)
        if z is None:
            raise OutOfReach(f"not a real scalar: {type(x).__name__}")
        return SReal(z)

    def _bin(self, o, f, rf=False):
        oz = SReal.lift(o)
        if oz is None:
            return NotImplemented
        return SReal.mk(f(oz, self.z) if rf else f(self.z, oz))

    def __add__(self, o):
        return self._bin(o, lambda a, b: a + b)

    def __radd__(self, o):
        return self._bin(o, lambda a, b: a + b, True)

    def __sub__(self, o):
        return self._bin(o, lambda a, b: a - b)

    def __rsub__(self, o):
        return self._bin(o, lambda a, b: a - b, True)

    def __mul__(self, o):
        return self._bin(o, lambda a, b: a * b)

    def __rmul__(self, o):
        return self._bin(o, lambda a, b: a * b, True)

    def __truediv__(self, o):
        oz = SReal.lift(o)
        if oz is None:
            return NotImplemented
        if not getattr(o, "np_float64", False):      # numpy float64 / float64 never raises (inf / nan): see qv/term.py
            cur().require("div.nonzero", SBool.mk(oz != 0), f"divisor {oz} is non-zero")
        return SReal.mk(self.z / oz)

    def __rtruediv__(self, o):
        oz = SReal.lift(o)
        if oz is None:
            return NotImplemented
        cur().require("div.nonzero", SBool.mk(self.z != 0), f"divisor {self.z} is non-zero")
        return SReal.mk(oz / self.z)

    def __pow__(self, o):
        if isinstance(o, int) and not isinstance(o, bool) and 0 <= o <= 8:
            r = z3.RealVal(1)
            for _ in range(o):
                r = r * self.z
            return SReal.mk(r)
        if isinstance(o, (Fraction, float)) and Fraction(_frac(o)) == Fraction(1, 2):
            return ssqrt(self)
        raise OutOfReach(f"power {o!r} of a symbolic real")

    def __rpow__(self, base):
        return spow(base, self)

    def __neg__(self):
        return SReal.mk(-self.z)

    def __pos__(self):
        return self

    def __abs__(self):
        return SReal.mk(z3.If(self.z >= 0, self.z, -self.z))

    def __float__(self):
        raise OutOfReach("float() of symbolic real reached Python")

    def _cmp(self, o, f):
        if isinstance(o, float) and o in (float("inf"), float("-inf")):
            return None
        oz = SReal.lift(o)
        if oz is None:
            return NotImplemented
        return f(self.z, oz)

    def __lt__(self, o):
        r = self._cmp(o, lambda a, b: a < b)
        return (o > 0) if r is None else SBool.mk(r)

    def __le__(self, o):
        r = self._cmp(o, lambda a, b: a <= b)
        return (o > 0) if r is None else SBool.mk(r)

    def __gt__(self, o):
        r = self._cmp(o, lambda a, b: a > b)
        return (o < 0) if r is None else SBool.mk(r)

    def __ge__(self, o):
        r = self._cmp(o, lambda a, b: a >= b)
        return (o < 0) if r is None else SBool.mk(r)

    def __eq__(self, o):
        if o is None or isinstance(o, str):
            return False
        r = self._cmp(o, lambda a, b: a == b)
        if r is None:
            return False
        return False if r is NotImplemented else SBool.mk(r)

    def __ne__(self, o):
        if o is None or isinstance(o, str):
            return True
        r = self._cmp(o, lambda a, b: a != b)
        if r is None:
            return True
        return True if r is NotImplemented else SBool.mk(r)

    def __hash__(self):
        return hash(("SReal", self.z.hash()))

    def __repr__(self):
        return f"SReal({self.z})"


_SQRT_CACHE = {}


def ssqrt(x):
    """sqrt of a non-negative real: a fresh (memoised per argument) real s with s>=0, s*s=x."""
    if isinstance(x, (int, Fraction)) and not isinstance(x, bool):
        x = Fraction(x)
        if x < 0:
            raise Raised("ValueError", "sqrt of negative")
        import math
        n, d = x.numerator, x.denominator
        rn, rd = math.isqrt(n), math.isqrt(d)
        if rn * rn == n and rd * rd == d:
            return Fraction(rn, rd)
        xz = smt.to_real(x)
    else:
        xz = SReal.lift(x)
        if xz is None:
            raise OutOfReach("sqrt of non-scalar")
    c = cur()
    key = (id(c), xz.hash(), str(xz))
    if key in _SQRT_CACHE:
        return _SQRT_CACHE[key]
    s = z3.Real(c.fresh_name("sqrt"))
    c.require("sqrt.nonneg", SBool.mk(xz >= 0), f"sqrt argument {xz} is non-negative")
    c.assume(z3.And(s >= 0, s * s == xz), base=True)
    r = SReal(s)
    _SQRT_CACHE[key] = r
    return r


_POW = {}


def spow(base, x):
    """base ** x for a positive rational base and a symbolic real exponent: an uninterpreted function
    application with the axiom  base**x > 0  (nothing else is used)."""
    if isinstance(base, float):
        base = _frac(base)
    if not (isinstance(base, (int, Fraction)) and base > 0):
        raise OutOfReach("power with a symbolic or non-positive base")
    f = _POW.setdefault(str(base), z3.Function(f"pow[{base}]", z3.RealSort(), z3.RealSort()))
    v = f(SReal.lift(x))
    cur().assume(v > 0, base=True)
    return SReal(v)


def slog10(x):
    f = _POW.setdefault("log10", z3.Function("log10", z3.RealSort(), z3.RealSort()))
    xz = SReal.lift(x)
    cur().require("log.positive", SBool.mk(xz > 0), f"log10 argument {xz} is positive")
    return SReal(f(xz))


def is_sym(x):
    return isinstance(x, (SInt, SReal, SBool))


def is_intlike(x):
    return (isinstance(x, int) and not isinstance(x, bool)) or isinstance(x, SInt)


def is_reallike(x):
    return isinstance(x, (int, Fraction, float, SInt, SReal)) and not isinstance(x, bool)


def smin(*xs):
    if len(xs) == 1:
        xs = tuple(xs[0])
    r = xs[0]
    for x in xs[1:]:
        c = x < r
        if isinstance(c, bool):
            r = x if c else r
        else:
            if is_intlike(x) and is_intlike(r):
                r = SInt.mk(z3.If(c.z, SInt.lift(x), SInt.lift(r)))
            else:
                r = SReal.mk(z3.If(c.z, SReal.lift(x), SReal.lift(r)))
    return r


def smax(*xs):
    if len(xs) == 1:
        xs = tuple(xs[0])
    r = xs[0]
    for x in xs[1:]:
        c = x > r
        if isinstance(c, bool):
            r = x if c else r
        else:
            if is_intlike(x) and is_intlike(r):
                r = SInt.mk(z3.If(c.z, SInt.lift(x), SInt.lift(r)))
            else:
                r = SReal.mk(z3.If(c.z, SReal.lift(x), SReal.lift(r)))
    return r
