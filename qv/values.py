"""Symbolic array values of the matrix-level (free-algebra) domain and the generic heap objects.

RMat  real matrix of symbolic shape (NC polynomial), storage tag dense|csr
QMat  dense quaternion matrix at component level: four RMat (w, x, y, z)
F4    the (m, n, 4) float view of a QMat  (quaternion.as_float_array)
HMat  abstract quaternion matrix (atom algebra with * = conjugate transpose); the product of two
      HMat exists only through the contract of quat_matmat
"""
from __future__ import annotations

from fractions import Fraction

import z3

from . import nc as ncm
from .nc import NC, Atom
from .sym import (OutOfReach, Raised, SBool, SInt, SReal, cur, is_reallike, ssqrt, _frac)


class DType:
    def __init__(self, name):
        self.name = name

    def __eq__(self, o):
        return isinstance(o, DType) and o.name == self.name

    def __ne__(self, o):
        return not self.__eq__(o)

    def __hash__(self):
        return hash(self.name)

    def __repr__(self):
        return f"dtype({self.name})"


QUAT = DType("quaternion")
F64 = DType("float64")
C128 = DType("complex128")
I64 = DType("int64")


class TypeTag:
    """Stands for a Python/NumPy type in isinstance checks."""

    def __init__(self, name):
        self.name = name

    def __repr__(self):
        return f"<type {self.name}>"


NDARRAY = TypeTag("ndarray")
QSCALAR = TypeTag("quaternion.quaternion")
NPFLOATING = TypeTag("np.floating")
CSR = TypeTag("csr_matrix")


class ElemSq:
    """x**2 element-wise, only consumable by a sum (-> squared Frobenius norm)."""
    qv_value = True

    def __init__(self, parts):
        self.parts = parts  # list of NC

    def sum(self):
        tot = Fraction(0)
        for p in self.parts:
            tot = tot + ncm.fro2(p)
        return tot

    def count(self):
        n = 0
        for p in self.parts:
            n = n + p.rows * p.cols
        return n

    def mean(self):
        return self.sum() / self.count()


class RMat:
    pytypes = None

    def __init__(self, p: NC, storage="dense"):
        self.p = p
        self.storage = storage

    # -- numpy / scipy.sparse surface ---------------------------------------------------------
    @property
    def shape(self):
        return (self.p.rows, self.p.cols)

    ndim = 2

    @property
    def dtype(self):
        return F64

    @property
    def T(self):
        return RMat(self.p.T, self.storage)

    def transpose(self, *a):
        return RMat(self.p.T, self.storage)

    def conjugate(self):
        return RMat(self.p, self.storage)

    conj = conjugate

    def copy(self):
        return RMat(self.p, self.storage)

    def astype(self, t):
        return RMat(self.p, self.storage)

    @property
    def size(self):
        return self.p.rows * self.p.cols

    def max(self):
        return self._extreme("max")

    def min(self):
        return self._extreme("min")

    def _extreme(self, what):
        # max / min entry of an abstract matrix: an uninterpreted real per (matrix, kind) with min <= max
        key = f"{what}[{self.p!r}]"
        v = SReal.var(key)
        lo, hi = SReal.var(f"min[{self.p!r}]"), SReal.var(f"max[{self.p!r}]")
        cur().assume(lo <= hi, base=True)
        return v

    def toarray(self):
        if self.storage != "csr":
            raise Raised("AttributeError", "'numpy.ndarray' object has no attribute 'toarray'")
        return RMat(self.p, "dense")

    def tocsr(self):
        if self.storage != "csr":
            raise Raised("AttributeError", "'numpy.ndarray' object has no attribute 'tocsr'")
        return RMat(self.p, "csr")

    @property
    def nnz(self):
        """Number of stored entries of a csr matrix: a symbolic non-negative integer; on a path where it is
        zero the matrix (if it is a single atom) is the zero matrix."""
        if self.storage != "csr":
            raise Raised("AttributeError", "'numpy.ndarray' object has no attribute 'nnz'")
        from .sym import SInt, SBool
        import z3 as _z3
        words = list(self.p.t)
        n = SInt.var(f"nnz[{self.p!r}]")
        c = cur()
        c.assume(n >= 0, base=True)
        if len(words) == 1 and len(words[0]) == 1:
            atom = words[0][0][0]
            if bool(n == 0):
                c.ghost.setdefault("zero_atoms", set()).add(atom)
                return 0
            return n
        return n

    def power(self, k):
        if self.storage != "csr" or k != 2:
            raise OutOfReach("power() other than csr.power(2)")
        return ElemSq([self.p])

    def has_attr(self, name):
        if name in ("toarray", "tocsr", "power", "nnz"):
            return self.storage == "csr"
        return hasattr(self, name)

    def _wrap(self, p, o=None):
        st = "csr" if (self.storage == "csr" and (o is None or o.storage == "csr")) else "dense"
        return RMat(p, st)

    def __add__(self, o):
        if isinstance(o, RMat):
            return self._wrap(self.p + o.p, o)
        return NotImplemented

    def __sub__(self, o):
        if isinstance(o, RMat):
            return self._wrap(self.p - o.p, o)
        return NotImplemented

    def __neg__(self):
        return RMat(-self.p, self.storage)

    def __matmul__(self, o):
        if isinstance(o, RMat):
            return self._wrap(self.p @ o.p, o)
        return NotImplemented

    def __mul__(self, c):
        if is_reallike(c):
            return RMat(self.p.scale(c), self.storage)
        if isinstance(c, RMat):
            raise OutOfReach("element-wise product of real matrices in the matrix-level domain")
        return NotImplemented

    __rmul__ = __mul__

    def __truediv__(self, c):
        if is_reallike(c):
            return RMat(self.p / c, self.storage)
        return NotImplemented

    def __pow__(self, k):
        if k == 2:
            return ElemSq([self.p])
        raise OutOfReach("element-wise power")

    def __repr__(self):
        return f"RMat[{self.storage}]({self.p})"


class F4:
    """Float view (…, 4) of a quaternion matrix."""

    def __init__(self, comps):
        self.c = list(comps)  # four RMat

    @property
    def shape(self):
        r, c = self.c[0].shape
        return (r, c, 4)

    ndim = 3

    @property
    def dtype(self):
        return F64

    def getitem(self, idx):
        if isinstance(idx, tuple) and len(idx) == 2 and idx[0] is Ellipsis and isinstance(idx[1], int):
            k = idx[1]
            if not -4 <= k < 4:
                raise Raised("IndexError", "component index out of range")
            return self.c[k]
        raise OutOfReach(f"float-view indexing {idx!r}")

    def __pow__(self, k):
        if k == 2:
            return ElemSq([x.p for x in self.c])
        raise OutOfReach("element-wise power")


class QMat:
    """Dense quaternion matrix, component level."""

    def __init__(self, comps):
        self.c = list(comps)

    @property
    def shape(self):
        return self.c[0].shape

    ndim = 2

    @property
    def dtype(self):
        return QUAT

    def copy(self):
        return QMat([x.copy() for x in self.c])

    def conj(self):
        return QMat([self.c[0]] + [-x for x in self.c[1:]])

    conjugate = conj

    @property
    def T(self):
        return QMat([x.T for x in self.c])

    def transpose(self, *a):
        return self.T

    def has_attr(self, name):
        return name in ("shape", "ndim", "dtype", "copy", "conj", "conjugate", "T", "transpose", "real", "imag")

    def __add__(self, o):
        if isinstance(o, QMat):
            return QMat([a + b for a, b in zip(self.c, o.c)])
        return NotImplemented

    def __sub__(self, o):
        if isinstance(o, QMat):
            return QMat([a - b for a, b in zip(self.c, o.c)])
        return NotImplemented

    def __neg__(self):
        return QMat([-a for a in self.c])

    def __mul__(self, s):
        if is_reallike(s):
            return QMat([a * s for a in self.c])
        raise OutOfReach("element-wise quaternion product in the matrix-level domain")

    __rmul__ = __mul__

    def __truediv__(self, s):
        if is_reallike(s):
            return QMat([a / s for a in self.c])
        return NotImplemented


class HMat:
    """Abstract quaternion matrix: element of the free *-algebra with * = conjugate transpose."""

    def __init__(self, p: NC):
        self.p = p

    @property
    def shape(self):
        return (self.p.rows, self.p.cols)

    ndim = 2

    @property
    def dtype(self):
        return QUAT

    def copy(self):
        return HMat(self.p)

    def has_attr(self, name):
        return name in ("shape", "ndim", "dtype", "copy", "reshape")

    column_atoms = False       # when set (C04 left_lu case): A[:, j:j+1] is modelled as A @ e_j with a unit-vector atom e_j

    def getitem(self, idx):
        """Sub-blocks of an abstract matrix are only shapes (their entries are not modelled)."""
        t = idx if isinstance(idx, tuple) else (idx,)
        t = t + (slice(None),) * (2 - len(t))
        if HMat.column_atoms and len(t) == 2 and isinstance(t[0], slice) and t[0] == slice(None) and not isinstance(t[1], slice):
            from .sym import SInt as _SI2
            if isinstance(t[1], (int, _SI2)):
                e = Atom(f"e[{_SI2.lift(t[1])}]", self.p.cols, 1, "gen", alg="H")
                out = HMat(self.p @ NC.atom(e))
                out.column_index = t[1]
                out.one_dim = True
                return out
        if HMat.column_atoms and len(t) == 2 and isinstance(t[0], slice) and t[0] == slice(None) and isinstance(t[1], slice) and t[1].step is None:
            j, j1 = t[1].start, t[1].stop
            from .sym import SInt as _SI
            if j is not None and j1 is not None and (_SI.lift(j1 - j) is not None) and cur().valid(SBool.mk(_SI.lift(j1 - j) == 1)) is True:
                key = str(_SI.lift(j))
                e = Atom(f"e[{key}]", self.p.cols, 1, "gen", alg="H")
                out = HMat(self.p @ NC.atom(e))
                out.column_index = j
                return out
        shp = []
        for i, d in zip(t, self.shape):
            if isinstance(i, slice):
                if i.step not in (None, 1):
                    raise OutOfReach("strided slice of an abstract matrix")
                lo = 0 if i.start is None else i.start
                hi = d if i.stop is None else i.stop
                shp.append(hi - lo)
        return HSub(self, idx, tuple(shp))

    def __add__(self, o):
        if isinstance(o, HMat):
            return HMat(self.p + o.p)
        return NotImplemented

    def __sub__(self, o):
        if isinstance(o, HMat):
            return HMat(self.p - o.p)
        return NotImplemented

    def __neg__(self):
        return HMat(-self.p)

    def __mul__(self, s):
        if is_reallike(s):
            return HMat(self.p.scale(s))
        c = getattr(s, "c", None)
        if type(s).__name__ == "QScal" and all(isinstance(x, (int, Fraction)) and x == 0 for x in c[1:]):
            return HMat(self.p.scale(c[0]))        # a real quaternion scalar is central
        raise OutOfReach("element-wise product of abstract quaternion matrices")

    def reshape(self, *shape):
        """Only the reshapes that keep the entries in place: (r, c) -> (r, c), and a column (n, 1) -> (n,)
        (recorded; the 1-D view carries the same polynomial and remembers its source)."""
        if len(shape) == 1 and isinstance(shape[0], tuple):
            shape = shape[0]
        from .nc import dims_equal
        if len(shape) == 2:
            dims_equal(self.p.rows, shape[0], "reshape.rows")
            dims_equal(self.p.cols, shape[1], "reshape.cols")
            out = HMat(self.p)
            out.reshaped_from = getattr(self, "reshaped_from", self)
            return out
        if len(shape) == 1:
            dims_equal(self.p.cols, 1, "reshape.column")
            dims_equal(self.p.rows, shape[0], "reshape.rows")
            out = HMat(self.p)
            out.reshaped_from = getattr(self, "reshaped_from", self)
            out.one_dim = True
            return out
        raise OutOfReach(f"reshape{shape} of an abstract quaternion matrix")

    __rmul__ = __mul__

    def __truediv__(self, s):
        if is_reallike(s):
            return HMat(self.p / s)
        return NotImplemented

    def __matmul__(self, o):
        raise Raised("TypeError", "numpy '@' on quaternion arrays is not the quaternion matrix product")

    def __repr__(self):
        return f"HMat({self.p})"


class HSub:
    """A slice of an abstract quaternion matrix: shape only."""
    qv_value = True

    def __init__(self, parent, idx, shape):
        self.parent, self.idx, self.shape = parent, idx, shape
        self.ndim = len(shape)
        self.dtype = QUAT

    def has_attr(self, name):
        return name in ("shape", "ndim", "dtype")


class RVec:
    """A real 1-D work vector in the matrix-level domain (e.g. e1): length only, entries by assignment."""
    qv_value = True

    def __init__(self, n):
        self.shape = (n,)
        self.ndim = 1
        self.dtype = F64
        self.entries = {}

    def setitem(self, i, v):
        self.entries[i if isinstance(i, int) else repr(i)] = v

    def has_attr(self, name):
        return name in ("shape", "ndim", "dtype")


# -- generic heap ---------------------------------------------------------------------------------
class Obj:
    """Instance of a repository class."""

    def __init__(self, cls):
        self.cls = cls
        self.fields = {}

    def __repr__(self):
        return f"<{self.cls.name} {list(self.fields)}>"


class ClassVal:
    def __init__(self, module, node, name):
        self.module, self.node, self.name = module, node, name
        self.methods = {}

    def __repr__(self):
        return f"<class {self.name}>"


class FuncVal:
    def __init__(self, module, node, qualname, closure=None, cls=None):
        self.module, self.node, self.qualname, self.closure, self.cls = module, node, qualname, closure, cls

    def __repr__(self):
        return f"<function {self.qualname}>"


class BoundMethod:
    def __init__(self, obj, fn):
        self.obj, self.fn = obj, fn


class ModVal:
    """A module namespace (library model or repository module)."""

    def __init__(self, name, table=None, module=None):
        self.name, self.table, self.module = name, table or {}, module

    def __repr__(self):
        return f"<module {self.name}>"


class Opaque:
    """A value the model does not interpret (strings from f-strings, timings...)."""

    def __init__(self, what):
        self.what = what

    def __repr__(self):
        return f"<opaque {self.what}>"

    def __format__(self, spec):
        return f"<{self.what}>"


class OtherStr:
    """An arbitrary Python string that is none of `allowed` (the documented values of an option).  Only comparisons with string literals
    and membership in lists / tuples / dicts of literals are modelled: against a documented value the answer is False for every such string;
    anything whose answer depends on the characters (substring tests, case folding, a literal outside the documented values) is out of reach."""
    qv_value = True

    def __init__(self, allowed, name="option"):
        self.allowed, self.name = frozenset(allowed), name

    def eq(self, other):
        if isinstance(other, str):
            if other in self.allowed:
                return False
            raise OutOfReach(f"comparison of an arbitrary string with {other!r}, which is not one of the documented values {sorted(self.allowed)}")
        if isinstance(other, OtherStr):
            raise OutOfReach("comparison of two arbitrary strings")
        if other is None or isinstance(other, (int, float, tuple, list, dict)) or type(other).__name__ in ("SInt", "SReal", "Fraction"):
            return False                      # a str never equals a number / None / container
        raise OutOfReach(f"comparison of an arbitrary string with {type(other).__name__}")

    __hash__ = None

    def __repr__(self):
        return f"<any string other than {sorted(self.allowed)}>"


class SymList:
    """A Python list of symbolic length: an abstract prefix of `prefix_len` entries (described only by
    the loop invariant) followed by the items appended on the current path.  Only append / len / [-1]
    are modelled, so any other mutation puts the function out of reach."""
    qv_value = True

    def __init__(self, prefix_len, name="", entry=None):
        self.prefix_len, self.items, self.name = prefix_len, [], name
        self.entry = entry          # optional closed form  j -> value  of the abstract prefix

    def append(self, v):
        self.items.append(v)

    def getitem(self, i):
        if isinstance(i, int) and i < 0 and -i <= len(self.items):
            return self.items[i]
        if isinstance(i, int) and i < 0 and self.entry is not None:
            return self.entry(self.prefix_len + len(self.items) + i)
        if self.entry is not None and not self.items:
            # L[j] inside the abstract prefix given by a closed form (0 <= j < len is an index obligation)
            from .sym import SBool, SInt, cur
            jz = SInt.lift(i)
            if jz is not None:
                cur().require("index.range", SBool.mk(z3.And(jz >= 0, jz < SInt.lift(self.prefix_len))), f"list index {jz} inside the list")
                return self.entry(i)
        raise OutOfReach("read of an abstract list entry")

    def setitem(self, i, v):
        """L[-1] = v : on an appended item directly; on the abstract prefix when it is known to be non-empty."""
        if not (isinstance(i, int) and i == -1):
            raise OutOfReach("write to an abstract list entry other than the last")
        if self.items:
            self.items[-1] = v
            return
        from .sym import cur
        if cur().valid(self.prefix_len >= 1) is not True:
            raise OutOfReach("write to the last entry of a possibly empty abstract list")
        self.prefix_len = self.prefix_len - 1
        self.items.append(v)

    def length(self):
        return self.prefix_len + len(self.items)

    def truth(self):
        return bool(self.length() > 0)

    def has_attr(self, name):
        return name in ("append",)

    def __repr__(self):
        return f"SymList({self.prefix_len}+{len(self.items)})"


def fresh_rmat(name, rows, cols, storage="dense", kind="gen", **kw):
    return RMat(NC.atom(Atom(name, rows, cols, kind, **kw)), storage)


def fresh_qmat(name, rows, cols):
    return QMat([fresh_rmat(f"{name}{c}", rows, cols) for c in "wxyz"])


def fresh_hmat(name, rows, cols, kind="gen", **kw):
    return HMat(NC.atom(Atom(name, rows, cols, kind, alg="H", **kw)))
