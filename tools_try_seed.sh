#!/bin/bash
# usage: tools_try_seed.sh <worktree> <out/i dir> <PROP> : confirm demo both ways, run the check on the patched worktree
WT=$1; D=$2; P=$3
git -C $WT checkout -q -- . 
/venv/bin/python $D/demo.py $WT >/dev/null 2>&1; echo "demo pristine exit=$?"
git -C $WT apply $D/patch.diff || { echo "patch does not apply"; exit 2; }
/venv/bin/python $D/demo.py $WT >/dev/null 2>&1; echo "demo patched exit=$?"
(cd /verif && QV_REPO=$WT ./check $P 2>&1 | grep -E "^\[|VIOLATION|INTERNAL|KNOWN" | cut -c1-170)
git -C $WT checkout -q -- .
